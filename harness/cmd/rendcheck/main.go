// rendcheck runs the correspondence checks between the real rend code and the
// Lean model (through the compiled line-protocol driver) and evaluates the
// property oracles on the implementation's behaviour.
package main

import (
	"encoding/json"
	"flag"
	"fmt"
	"io"
	"log"
	"os"
	"sort"
	"strconv"
	"time"
)

// Report is what one rendcheck run hands back to the `check` script.
type Report struct {
	Property     string                 `json:"property"`
	Tier         string                 `json:"tier"`
	Seed         int64                  `json:"seed"`
	Evaluations  int                    `json:"evaluations"`
	Distinct     int                    `json:"distinct_nontrivial"`
	Rule         string                 `json:"rule"`
	Samples      []interface{}          `json:"samples"`
	Validated    int                    `json:"traces_validated_against_impl"`
	Tainted      int                    `json:"tainted_by_clock_tick"`
	Distribution map[string]int         `json:"input_distribution"`
	Divergences  []*Divergence          `json:"divergences"`
	Violations   []Violation            `json:"violations"`
	Extra        map[string]interface{} `json:"extra,omitempty"`
	WallS        float64                `json:"wall_s"`
	Exhaustive   bool                   `json:"exhaustive"`
}

// Violation is a failure of the property's own oracle on the implementation.
type Violation struct {
	What      string      `json:"what"`
	Signature string      `json:"signature"` // matched against known_findings.jsonl
	Replay    interface{} `json:"replay"`
}

type checkFn func(rep *Report, tier string, seed int64)

var checks = map[string]checkFn{}

// enoughDivergences: stop exploring once model and implementation have disagreed on more than n
// cases AND a concrete failing input was found — without one the search goes on (up to 5n cases).
func enoughDivergences(rep *Report, n int) bool {
	return (len(rep.Divergences) > n && len(rep.Violations) > 0) || len(rep.Divergences) > 5*n
}

func main() {
	log.SetOutput(io.Discard) // rend logs through the global logger
	realStdout := os.Stdout
	if devnull, err := os.OpenFile(os.DevNull, os.O_WRONLY, 0); err == nil {
		os.Stdout = devnull // rend prints diagnostics (e.g. bad-magic headers) with fmt.Printf
	}
	prop := flag.String("prop", "", "property id (C01 ...)")
	tier := flag.String("tier", "quick", "quick | thorough")
	seed := flag.Int64("seed", 1, "PRNG seed")
	out := flag.String("out", "", "report file (JSON)")
	flag.Parse()
	if s := os.Getenv("VERIF_SEED"); s != "" && !flagSet("seed") {
		if v, err := strconv.ParseInt(s, 10, 64); err == nil {
			*seed = v
		}
	}
	fn, ok := checks[*prop]
	if !ok {
		var ks []string
		for k := range checks {
			ks = append(ks, k)
		}
		sort.Strings(ks)
		fmt.Fprintf(os.Stderr, "unknown property %q; have %v\n", *prop, ks)
		os.Exit(2)
	}
	initRunDir()
	if *out != "" {
		// (removed explicitly at the normal end only: a panic on this goroutine, inside code under
		// test that the harness calls directly, must leave the crumb behind)
		crumbPath = *out + ".current"
	}
	rep := &Report{Property: *prop, Tier: *tier, Seed: *seed, Distribution: map[string]int{}, Extra: map[string]interface{}{}}
	start := time.Now()
	func() {
		defer cleanupRunDir()
		fn(rep, *tier, *seed)
	}()
	rep.WallS = time.Since(start).Seconds()
	data, _ := json.MarshalIndent(rep, "", " ")
	if *out == "" {
		realStdout.Write(data)
		realStdout.Write([]byte("\n"))
	} else {
		must(os.WriteFile(*out, data, 0o644))
	}
	if crumbPath != "" {
		os.Remove(crumbPath)
	}
	if len(rep.Divergences) > 0 || len(rep.Violations) > 0 {
		os.Exit(1)
	}
}

// crumbPath: where the scenario being executed is recorded, so that when the code under test kills
// the process (a panic in one of its own goroutines cannot be recovered from outside) the check can
// still name the input that did it.
var crumbPath string

func crumb(what string, detail interface{}) {
	if crumbPath == "" {
		return
	}
	data, _ := json.Marshal(map[string]interface{}{"what": what, "detail": detail})
	os.WriteFile(crumbPath, data, 0o644)
}

func flagSet(name string) bool {
	set := false
	flag.Visit(func(f *flag.Flag) {
		if f.Name == name {
			set = true
		}
	})
	return set
}

package main

import (
	"bytes"
	"encoding/binary"
	"fmt"
	"math/rand"
	"os"
	"strings"
	"time"
)

// kvState is what the single-map specification may hold for one key.
type kvState struct {
	Present bool
	Val     []byte
	Flags   uint32
}

func (s kvState) String() string {
	if !s.Present {
		return "absent"
	}
	return fmt.Sprintf("%q/%d", s.Val, s.Flags)
}

// specApply: the single map's reaction to a data command on one key: new state and whether the
// command succeeds.
func specApply(c Command, s kvState) (kvState, bool) {
	switch c.Kind {
	case "set":
		return kvState{true, c.Data, c.Flags}, true
	case "add":
		if s.Present {
			return s, false
		}
		return kvState{true, c.Data, c.Flags}, true
	case "replace":
		if !s.Present {
			return s, false
		}
		return kvState{true, c.Data, c.Flags}, true
	case "append":
		if !s.Present {
			return s, false
		}
		return kvState{true, append(append([]byte{}, s.Val...), c.Data...), s.Flags}, true
	case "prepend":
		if !s.Present {
			return s, false
		}
		return kvState{true, append(append([]byte{}, c.Data...), s.Val...), s.Flags}, true
	case "delete":
		if !s.Present {
			return s, false
		}
		return kvState{}, true
	case "touch", "gat":
		return s, s.Present
	}
	return s, true
}

// ackOf classifies the reply to a non-get command: "ok" (acknowledged), "refused" (the
// specification's refusal: exists / not found / not stored), "other" (error reply, nothing, closed).
func ackOf(proto string, c Command, body []byte, ending string) string {
	if ending != "eof" {
		return "other"
	}
	if proto == "text" {
		s := string(body)
		switch {
		case s == "STORED\r\n" || s == "DELETED\r\n" || s == "TOUCHED\r\n":
			return "ok"
		case s == "NOT_STORED\r\n" || s == "NOT_FOUND\r\n" || s == "EXISTS\r\n":
			return "refused"
		}
		return "other"
	}
	fs, err := decodeBinStrict(body)
	if err != nil || len(fs) != 1 || fs[0].Opaque != c.Opaque {
		return "other"
	}
	switch fs[0].Status {
	case 0:
		return "ok"
	case 1, 2, 5:
		return "refused"
	}
	return "other"
}

// readsOf extracts key -> (hit value, flags | miss) from the reply to a get / gat; ok=false if the
// reply is an error reply or undecodable (then nothing is learnt).
func readsOf(proto string, c Command, body []byte) (map[string]kvState, bool) {
	out := map[string]kvState{}
	if proto == "text" {
		its, err := decodeTextStrict(body)
		if err != nil || len(its) == 0 || its[len(its)-1].Line != "END" {
			return nil, false
		}
		for _, k := range c.Keys {
			out[string(k.Key)] = kvState{}
		}
		for _, it := range its {
			if it.Value {
				out[it.Key] = kvState{true, it.Data, it.Flags}
			}
		}
		return out, true
	}
	fs, err := decodeBinStrict(body)
	if err != nil {
		return nil, false
	}
	for _, f := range fs {
		if f.Status != 0 && f.Status != 1 {
			return nil, false
		}
	}
	byOpq := map[uint32]binFrame{}
	for _, f := range fs {
		byOpq[f.Opaque] = f
	}
	if c.Kind == "gat" {
		f, ok := byOpq[c.Opaque]
		if !ok {
			return nil, false
		}
		if f.Status == 0 && len(f.Extras) == 4 {
			out[string(c.Key)] = kvState{true, f.Value, binary.BigEndian.Uint32(f.Extras)}
		} else {
			out[string(c.Key)] = kvState{}
		}
		return out, true
	}
	for _, k := range c.Keys {
		f, ok := byOpq[k.Opaque]
		if ok && f.Status == 0 && len(f.Extras) == 4 {
			out[string(k.Key)] = kvState{true, f.Value, binary.BigEndian.Uint32(f.Extras)}
		} else {
			out[string(k.Key)] = kvState{}
		}
	}
	return out, true
}

// possibleOracle follows, per key, the set of states the single map may be in given what the
// client was told, and judges every read against it.
type possibleOracle struct {
	poss map[string][]kvState
}

func (o *possibleOracle) get(k string) []kvState {
	if p, ok := o.poss[k]; ok {
		return p
	}
	return []kvState{{}}
}

func sameState(a, b kvState) bool {
	return a.Present == b.Present && (!a.Present || (bytes.Equal(a.Val, b.Val) && a.Flags == b.Flags))
}

func addState(l []kvState, s kvState) []kvState {
	for _, x := range l {
		if sameState(x, s) {
			return l
		}
	}
	return append(l, s)
}

// observe processes one command with its reply; faulted = a backend fault was planned for it.
// normalOutcome: the status is one this command is answered with by a healthy backend (a miss, an
// "exists", a "not stored"): injected, it is not an error but a wrong statement about the backend's
// content, which no cache in front of it can detect — outside the fault model of the property.
func normalOutcome(kind string, status uint16) bool {
	switch status {
	case 0x0001:
		return kind != "set" && kind != "add"
	case 0x0002:
		return kind == "add" || kind == "gat" || kind == "get"
	case 0x0005:
		return kind == "append" || kind == "prepend"
	}
	return false
}

func (o *possibleOracle) observe(proto string, c Command, out []byte, sentinelLen int, ending string, faulted bool) string {
	body := out
	if ending == "eof" && len(out) >= sentinelLen {
		body = out[:len(out)-sentinelLen]
	}
	switch c.Kind {
	case "get", "gat":
		if ending != "eof" {
			return ""
		}
		reads, ok := readsOf(proto, c, body)
		if !ok {
			return ""
		}
		for k, got := range reads {
			if !got.Present {
				continue // a miss is always tolerated after a fault (the entry may have been dropped)
			}
			okv := false
			for _, p := range o.get(k) {
				if sameState(p, got) {
					okv = true
				}
			}
			if !okv {
				var ps []string
				for _, p := range o.get(k) {
					ps = append(ps, p.String())
				}
				return fmt.Sprintf("%s returned %s for key %q; given what was acknowledged the map can only hold one of {%s}", c.Kind, got, k, strings.Join(ps, ", "))
			}
			// a value that was read is what the map holds
			o.poss[k] = []kvState{got}
		}
		return ""
	case "set", "add", "replace", "append", "prepend", "delete", "touch":
		k := string(c.Key)
		ack := "ok"
		if !c.Quiet {
			ack = ackOf(proto, c, body, ending)
		} else if ending != "eof" || len(body) > 0 {
			ack = "other"
		}
		if faulted && ack == "refused" {
			// an error status injected into a backend is passed on to the client as an error
			// reply: nothing is learnt about whether the command was performed
			ack = "other"
		}
		var next []kvState
		for _, p := range o.get(k) {
			n, succ := specApply(c, p)
			switch ack {
			case "ok":
				if succ {
					next = addState(next, n)
				}
			case "refused":
				if !succ {
					next = addState(next, p)
				}
			default:
				// not acknowledged: performed or not
				next = addState(addState(next, p), n)
			}
		}
		if len(next) == 0 {
			if faulted {
				// the reply contradicts every possible state only if it is an acknowledgement that
				// cannot be true; keep going with both outcomes
				for _, p := range o.get(k) {
					n, _ := specApply(c, p)
					next = addState(addState(next, p), n)
				}
				return fmt.Sprintf("%s on key %q was answered %q, which the single map would not answer in any state it can be in", c.Kind, k, ack)
			}
			return fmt.Sprintf("%s on key %q was answered %q, which the single map would not answer in any state it can be in", c.Kind, k, ack)
		}
		o.poss[k] = next
	}
	return ""
}

func init() {
	checks["C10"] = func(rep *Report, tier string, seed int64) {
		rep.Rule = "every stack configuration (L1-only and L1/L2, with and without the locking wrapper, pass-through and chunked L1): for every command kind x protocol x fault {error status, connection cut before / after the request} x tier x request index (quick: seeded sample; thorough: whole grid), key cached or lost in L1: the command is issued on one connection, then the same keys are read and written from other connections (main and batch port) and again from the first; oracles: no exchange hangs (the request terminates: replies or close), every reply stream decodes as complete frames, a connection left open has answered the request, the process survives, other connections keep working, and a possible-values oracle follows what the single map may hold given the acknowledgements the client received: every value read afterwards must be one of them (so no stale value after an acknowledged write or delete, and nothing that was never written); reply bytes, endings, traces, contents and lock logs are compared with the Lean model (whose runner implements the same fault plan) on every step; distinct = distinct (configuration, protocol, command, fault, L1 state)"
		d := StartDriver()
		defer d.Close()
		r := rand.New(rand.NewSource(seed*733 + 1))
		distinct := map[string]bool{}
		sample := 0.03
		if tier == "thorough" {
			sample = 0.6
		}
		for ci, cfg := range fullStackConfigs(tier) {
			maxIdx := 3
			if cfg.L1 == "chunked" {
				maxIdx = 5
			}
			for _, proto := range []string{"bin", "text"} {
				for cmi, cmd := range faultCommands(proto, []byte("foo"), []byte("bar")) {
					for fi, f := range faultPlans(tier, maxIdx) {
						if f.Tier == "L2" && cfg.Orca == "l1only" {
							continue
						}
						for _, lose := range []bool{false, true} {
							if lose && cfg.Orca != "l1l2" {
								continue
							}
							tag := fmt.Sprintf("%d/%s/%d/%d/%v", ci, proto, cmi, fi, lose)
							if only := os.Getenv("VERIF_ONLY"); only != "" && only != tag {
								continue
							}
							// always run: faults in either leg of a multi-key get whose keys are not in L1 (an
							// error there must not be papered over by the back-fill of the keys that were read)
							always := cmd.Kind == "get" && len(cmd.Keys) > 1 && f.Index <= 2 && lose && proto == "bin" &&
								(f.Kind != "status" || f.Status == 0x0082)
							// always run: every error status in answer to the L1 leg of a write to a key that L1
							// holds (the compensation after a refused L1 write must not depend on the status)
							switch cmd.Kind {
							case "set", "add", "replace", "append", "prepend", "delete", "touch":
								if f.Tier == "L1" && f.Kind == "status" && f.Index <= 1 && !lose && proto == "bin" && cfg.Orca == "l1l2" {
									always = true
								}
							}
							// half of the plans meet their fault on the BATCH port (two-tier stacks, binary);
							// always run: a fault on the first L1 request of a get issued there
							batch := (cmi+fi)%2 == 1 && cfg.Orca == "l1l2" && proto == "bin"
							if batch && cmd.Kind == "get" && f.Tier == "L1" && f.Index == 0 {
								always = true
							}
							if r.Float64() > sample && !always && os.Getenv("VERIF_ONLY") == "" {
								continue
							}
							sc := faultScenario("C10-"+tag, cfg, proto, cmd, f, lose, batch)
							out := RunScenarioO(d, sc, 2*time.Second, false)
							if out.Tainted {
								out = RunScenarioO(d, sc, 2*time.Second, false)
							}
							if out.Tainted {
								rep.Tainted++
								continue
							}
							rep.Evaluations++
							distinct[tag] = true
							rep.Distribution["cmd:"+cmd.Kind]++
							rep.Distribution["fault:"+f.Kind]++
							if len(rep.Samples) < 3 {
								rep.Samples = append(rep.Samples, describeScenario(sc))
							}
							orc := &possibleOracle{poss: map[string][]kvState{}}
							faultNext := false
							faultedConn := ""
							for i, ob := range out.Obs {
								st := sc.Steps[i]
								if st.Kind == "fault" {
									faultNext = true
									continue
								}
								if st.Kind == "evict" || st.Kind != "feed" {
									continue
								}
								pr, sl := "bin", len(binSentinelReply)
								for _, c := range sc.Conns {
									if c.ID == st.Conn && c.Proto == "text" {
										pr, sl = "text", len(textSentinelReply)
									}
								}
								rep.Distribution["ending:"+ob.Ending]++
								fail := func(sig, what string) {
									rep.Violations = append(rep.Violations, Violation{What: fmt.Sprintf("step %d (%s), fault %s on %q: %s", i, st.Cmd.Describe(), f, cmd.Describe(), what),
										Signature: sig, Replay: map[string]interface{}{"scenario": describeScenario(sc), "step": i, "reply": canonN(300, ob.Out), "driver_script": out.Script}})
								}
								if ob.Ending == "hang" {
									fail("hang:"+st.Cmd.Kind+":"+f.Kind, "no reply and no close within the timeout")
									continue
								}
								if ob.Ending == "eof" {
									body := ob.Out[:len(ob.Out)-sl]
									if msg := answeredOrError(pr, st.Cmd, body); msg != "" {
										fail("unanswered:"+st.Cmd.Kind+":"+f.Kind, "connection left open but "+msg)
									}
								}
								if faultNext {
									faultedConn = st.Conn
								}
								if st.Conn != faultedConn && ob.Ending != "eof" {
									fail("collateral-close:"+st.Cmd.Kind, "a connection other than the one whose backend failed was closed ("+ob.Ending+")")
								}
								if faultNext && f.Kind == "status" && normalOutcome(st.Cmd.Kind, f.Status) {
									// the backend "lied" with a status that is a normal outcome of this command:
									// whatever was acknowledged, nothing is known about the key any more
									rep.Distribution["fault:status-that-is-a-normal-outcome"]++
									for _, k := range append([][]byte{st.Cmd.Key}, func() [][]byte {
										var ks [][]byte
										for _, gk := range st.Cmd.Keys {
											ks = append(ks, gk.Key)
										}
										return ks
									}()...) {
										if len(k) > 0 {
											var all []kvState
											for _, p := range orc.get(string(k)) {
												n, _ := specApply(st.Cmd, p)
												all = addState(addState(all, p), n)
											}
											orc.poss[string(k)] = all
										}
									}
								} else if msg := orc.observe(pr, st.Cmd, ob.Out, sl, ob.Ending, faultNext); msg != "" {
									fail("stale-or-foreign-read:"+st.Cmd.Kind+":"+cmd.Kind+":"+f.Kind, msg)
								}
								faultNext = false
							}
							if out.Div != nil {
								rep.Divergences = append(rep.Divergences, out.Div)
								if len(rep.Divergences) > 8 {
									rep.Distinct = len(distinct)
									return
								}
								continue
							}
							rep.Validated++
						}
					}
				}
			}
		}
		rep.Distinct = len(distinct)
	}
}

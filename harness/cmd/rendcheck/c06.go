package main

import (
	"bytes"
	"encoding/binary"
	"fmt"
	"math/rand"
	"sort"
	"strings"
	"sync"
	"time"

	"github.com/netflix/rend/common"
	"github.com/netflix/rend/handlers"
	"github.com/netflix/rend/handlers/memcached"
	"github.com/netflix/rend/handlers/memcached/batched"

	"verif/harness/fakemc"
)

// hres is the canonical outcome of one handler call.
type hres struct {
	Err  string
	Gets []string // key/opaque/quiet/miss/flags/data per response, sorted
}

func errName(err error) string {
	if err == nil {
		return "nil"
	}
	return err.Error()
}

func canonGets(rs []common.GetResponse) []string {
	var out []string
	for _, r := range rs {
		out = append(out, fmt.Sprintf("%s/%d/%v/%v/%d/%s", r.Key, r.Opaque, r.Quiet, r.Miss, r.Flags, canonN(40, r.Data)))
	}
	sort.Strings(out)
	return out
}

// hop is one handler-level operation.
type hop struct {
	Kind    string
	Key     []byte
	Data    []byte
	Flags   uint32
	Exptime uint32
	Keys    [][]byte
	Opaques []uint32
	Quiet   []bool
}

func (o hop) String() string {
	if o.Kind == "get" || o.Kind == "gete" {
		var ks []string
		for i, k := range o.Keys {
			ks = append(ks, fmt.Sprintf("%s/%d/%v", k, o.Opaques[i], o.Quiet[i]))
		}
		return o.Kind + " " + strings.Join(ks, ",")
	}
	return fmt.Sprintf("%s %s f=%d len=%d", o.Kind, o.Key, o.Flags, len(o.Data))
}

func drainGet(rc <-chan common.GetResponse, ec <-chan error) ([]common.GetResponse, error) {
	var rs []common.GetResponse
	var err error
	for rc != nil || ec != nil {
		select {
		case r, ok := <-rc:
			if !ok {
				rc = nil
			} else {
				rs = append(rs, r)
			}
		case e, ok := <-ec:
			if !ok {
				ec = nil
			} else {
				err = e
			}
		}
	}
	return rs, err
}

func drainGetE(rc <-chan common.GetEResponse, ec <-chan error) ([]common.GetResponse, error) {
	var rs []common.GetResponse
	var err error
	for rc != nil || ec != nil {
		select {
		case r, ok := <-rc:
			if !ok {
				rc = nil
			} else {
				// the remaining lifetime is carried in the key field's suffix for the comparison
				// (coarsened: the two calls of a differential pair may straddle a second)
				rs = append(rs, common.GetResponse{Key: append(append([]byte{}, r.Key...), []byte(fmt.Sprintf("~exp%d", (r.Exptime+50)/100))...), Data: r.Data, Opaque: r.Opaque, Flags: r.Flags, Miss: r.Miss, Quiet: r.Quiet})
			}
		case e, ok := <-ec:
			if !ok {
				ec = nil
			} else {
				err = e
			}
		}
	}
	return rs, err
}

func applyHop(h handlers.Handler, o hop) hres {
	switch o.Kind {
	case "set":
		return hres{Err: errName(h.Set(common.SetRequest{Key: o.Key, Data: o.Data, Flags: o.Flags, Exptime: o.Exptime}))}
	case "add":
		return hres{Err: errName(h.Add(common.SetRequest{Key: o.Key, Data: o.Data, Flags: o.Flags, Exptime: o.Exptime}))}
	case "replace":
		return hres{Err: errName(h.Replace(common.SetRequest{Key: o.Key, Data: o.Data, Flags: o.Flags, Exptime: o.Exptime}))}
	case "append":
		return hres{Err: errName(h.Append(common.SetRequest{Key: o.Key, Data: o.Data}))}
	case "prepend":
		return hres{Err: errName(h.Prepend(common.SetRequest{Key: o.Key, Data: o.Data}))}
	case "delete":
		return hres{Err: errName(h.Delete(common.DeleteRequest{Key: o.Key}))}
	case "touch":
		return hres{Err: errName(h.Touch(common.TouchRequest{Key: o.Key, Exptime: o.Exptime}))}
	case "gat":
		r, err := h.GAT(common.GATRequest{Key: o.Key, Exptime: o.Exptime, Opaque: 77})
		return hres{Err: errName(err), Gets: canonGets([]common.GetResponse{{Key: r.Key, Data: r.Data, Flags: r.Flags, Miss: r.Miss, Opaque: r.Opaque}})}
	case "get":
		rs, err := drainGet(h.Get(common.GetRequest{Keys: o.Keys, Opaques: o.Opaques, Quiet: o.Quiet}))
		return hres{Err: errName(err), Gets: canonGets(rs)}
	case "gete":
		rs, err := drainGetE(h.GetE(common.GetRequest{Keys: o.Keys, Opaques: o.Opaques, Quiet: o.Quiet}))
		return hres{Err: errName(err), Gets: canonGets(rs)}
	}
	return hres{Err: "bad-op"}
}

func genHop(r *rand.Rand, keys [][]byte) hop {
	kinds := []string{"set", "set", "add", "replace", "append", "prepend", "delete", "touch", "gat", "get", "get", "gete"}
	o := hop{Kind: kinds[r.Intn(len(kinds))], Key: keys[r.Intn(len(keys))], Flags: r.Uint32()}
	switch o.Kind {
	case "set", "add", "replace":
		if r.Intn(2) == 0 {
			o.Exptime = uint32(1000 * (1 + r.Intn(50)))
		}
		o.Data = make([]byte, r.Intn(40))
		for i := range o.Data {
			o.Data[i] = byte(r.Intn(256))
		}
		if r.Intn(10) == 0 {
			o.Data = make([]byte, 70000)
		}
	case "append", "prepend":
		o.Data = []byte{byte('a' + r.Intn(26))}
	case "get", "gete":
		n := 1 + r.Intn(5)
		for i := 0; i < n; i++ {
			o.Keys = append(o.Keys, keys[r.Intn(len(keys))])
			o.Opaques = append(o.Opaques, uint32(r.Intn(4)))
			o.Quiet = append(o.Quiet, r.Intn(2) == 0)
		}
	}
	return o
}

// a fake backend listening on a fresh socket
func newFake(name string) (*fakemc.Server, string) {
	f := fakemc.New()
	p := sockPath(name)
	must(f.Listen(p))
	return f, p
}

func batchReqToken(kind string, ch int, o hop) string {
	var ks []string
	if kind == "get" || kind == "gete" {
		for i, k := range o.Keys {
			q := 0
			if o.Quiet[i] {
				q = 1
			}
			ks = append(ks, fmt.Sprintf("%s/%d/%d", hx(k), o.Opaques[i], q))
		}
	} else {
		ks = append(ks, fmt.Sprintf("%s/%d/%d", hx(o.Key), 0, 0))
	}
	dat := hx(o.Data)
	return fmt.Sprintf("%s;%d;%d;%d;%s;%s", kind, ch, o.Flags, o.Exptime, dat, strings.Join(ks, ","))
}

func init() {
	checks["C06"] = func(rep *Report, tier string, seed int64) {
		rep.Rule = "(a) model tie: seeded random batches (1..12 requests of every kind, multi-key gets with duplicate keys and mixed quiet flags, values up to 70 KB) are passed to the real batchIntoBuffer (hook) and to the Lean model `Batched.assign` with the same opaque base: the bytes for the backend, the routing table (wire opaque -> key, opaque, quiet, caller) and the expected reply count per caller must be identical; (b) sequential differential: seeded command sequences (every command kind, hit and miss variants) through the batching handler and through a direct backend connection against two identical fake backends, for several batch sizes / delays / pool sizes: every outcome (error, data, flags, miss, one reply per requested key) and the final backend contents must agree; (c) 1..64 concurrent callers through one pool on private keys plus shared multi-key gets: every caller's outcomes must be what it would get alone; distinct = distinct (batch) / (options, sequence) / (callers, round)"
		distinct := map[string]bool{}
		r := rand.New(rand.NewSource(seed*611 + 6))
		keys := [][]byte{[]byte("k1"), []byte("key-two"), []byte("k3"), []byte("another-key-4")}
		// ---- (a)
		d := StartDriver()
		nb := 150
		if tier == "thorough" {
			nb = 1500
		}
		typeOf := map[string]common.RequestType{"set": common.RequestSet, "add": common.RequestAdd, "replace": common.RequestReplace, "append": common.RequestAppend,
			"prepend": common.RequestPrepend, "delete": common.RequestDelete, "touch": common.RequestTouch, "gat": common.RequestGat, "get": common.RequestGet, "gete": common.RequestGetE}
		for b := 0; b < nb; b++ {
			n := 1 + r.Intn(12)
			var reqs []batched.VerifReq
			var toks []string
			for i := 0; i < n; i++ {
				o := genHop(r, keys)
				if len(o.Data) > 1000 {
					o.Data = o.Data[:1000+r.Intn(3000)]
				}
				var req common.Request
				switch o.Kind {
				case "set", "add", "replace", "append", "prepend":
					req = common.SetRequest{Key: o.Key, Data: o.Data, Flags: o.Flags, Exptime: o.Exptime}
					if o.Kind == "append" || o.Kind == "prepend" {
						o.Flags, o.Exptime = 0, 0
						req = common.SetRequest{Key: o.Key, Data: o.Data}
					}
				case "delete":
					req = common.DeleteRequest{Key: o.Key}
				case "touch":
					o.Exptime = uint32(r.Intn(100000))
					req = common.TouchRequest{Key: o.Key, Exptime: o.Exptime}
				case "gat":
					o.Exptime = uint32(r.Intn(100000))
					req = common.GATRequest{Key: o.Key, Exptime: o.Exptime}
				default:
					req = common.GetRequest{Keys: o.Keys, Opaques: o.Opaques, Quiet: o.Quiet}
				}
				reqs = append(reqs, batched.VerifReq{Type: typeOf[o.Kind], Req: req, Chan: i})
				toks = append(toks, batchReqToken(o.Kind, i, o))
			}
			wire, table, expected := batched.VerifBatchIntoBuffer(seed*1000+int64(b), reqs)
			if len(wire) < 16 {
				continue
			}
			base := binary.BigEndian.Uint32(wire[12:16]) - 1
			sort.Slice(table, func(i, j int) bool { return table[i].WireOpaque < table[j].WireOpaque })
			var tb []string
			for _, h := range table {
				q := 0
				if h.Quiet {
					q = 1
				}
				tb = append(tb, fmt.Sprintf("%d:%s:%d:%d:%d", h.WireOpaque, hx(h.Key), h.Opaque, q, h.Chan))
			}
			var ex []string
			for i := 0; i < n; i++ {
				ex = append(ex, fmt.Sprintf("%d:%d", i, expected[i]))
			}
			out := d.Send(fmt.Sprintf("batch %d %s", base, strings.Join(toks, " ")), 3)
			// the model lists the table in request order; sort it by wire opaque for the comparison
			mt := strings.Fields(strings.TrimPrefix(out[1], "table"))
			sort.Slice(mt, func(i, j int) bool {
				var a, b uint32
				fmt.Sscanf(mt[i], "%d:", &a)
				fmt.Sscanf(mt[j], "%d:", &b)
				return a < b
			})
			rep.Evaluations++
			distinct[fmt.Sprintf("batch/%d", b)] = true
			rep.Distribution[fmt.Sprintf("batch-size:%d", n)]++
			implW, implT, implE := "wire "+canonN(256, wire), strings.Join(tb, " "), "expected "+strings.Join(ex, " ")
			if out[0] != implW || strings.Join(mt, " ") != implT || out[2] != implE {
				rep.Divergences = append(rep.Divergences, &Divergence{Scenario: fmt.Sprintf("C06-batch-%d", b), What: "batchIntoBuffer vs Batched.assign",
					Impl: implW + " | " + implT + " | " + implE, Model: out[0] + " | " + strings.Join(mt, " ") + " | " + out[2], Script: append([]string{}, d.Script[len(d.Script)-1:]...)})
				if enoughDivergences(rep, 3) {
					break
				}
				continue
			}
			rep.Validated++
		}
		d.Close()
		// ---- (b) sequential differential against a direct connection
		optsList := []batched.Opts{{BatchSize: 1, BatchDelayMicros: 50}, {BatchSize: 2, BatchDelayMicros: 100}, {BatchSize: 10, BatchDelayMicros: 250}, {BatchSize: 64, BatchDelayMicros: 1000}}
		if tier != "thorough" {
			optsList = optsList[:3]
		}
		seqs := 6
		if tier == "thorough" {
			seqs = 40
		}
		for oi, opts := range optsList {
			fb, pb := newFake(fmt.Sprintf("c06b%d-", oi))
			fd, pd := newFake(fmt.Sprintf("c06d%d-", oi))
			hb, _ := memcached.Batched(pb, opts)()
			for i := 0; i < oi; i++ {
				batched.VerifAddConn(pb)
			}
			hd, _ := memcached.Regular(pd)()
			for s := 0; s < seqs; s++ {
				crumb(fmt.Sprintf("C06 (b): a seeded sequence of calls through the batching pool (%+v, %d pooled connections) next to a direct connection, sequence %d", opts, oi+1, s), map[string]interface{}{"seed": seed})
				for _, f := range []*fakemc.Server{fb, fd} {
					for _, k := range f.Keys() {
						f.Drop(k)
					}
				}
				rr := rand.New(rand.NewSource(seed*31337 + int64(oi)*100 + int64(s)))
				var hist []string
				okSeq := true
				for step := 0; step < 40 && okSeq; step++ {
					o := genHop(rr, keys)
					hist = append(hist, o.String())
					a, b := applyHop(hb, o), applyHop(hd, o)
					rep.Distribution["op:"+o.Kind]++
					if a.Err != b.Err || strings.Join(a.Gets, "|") != strings.Join(b.Gets, "|") {
						rep.Violations = append(rep.Violations, Violation{What: fmt.Sprintf("batch size %d, delay %dus, pool %d: %s through the pool returned %v, over a direct connection %v", opts.BatchSize, opts.BatchDelayMicros, batched.VerifPoolSize(pb), o, a, b),
							Signature: "batched-vs-direct:" + o.Kind, Replay: map[string]interface{}{"opts": fmt.Sprintf("%+v", opts), "history": hist}})
						okSeq = false
					}
				}
				rep.Evaluations++
				distinct[fmt.Sprintf("seq/%d/%d", oi, s)] = true
				if okSeq {
					// final contents
					ka, kb := fb.Keys(), fd.Keys()
					sort.Strings(ka)
					sort.Strings(kb)
					same := strings.Join(ka, ",") == strings.Join(kb, ",")
					for _, k := range ka {
						x, _ := fb.Lookup(k)
						y, ok := fd.Lookup(k)
						if !ok || !bytes.Equal(x.Value, y.Value) || x.Flags != y.Flags {
							same = false
						}
					}
					if !same {
						rep.Violations = append(rep.Violations, Violation{What: fmt.Sprintf("batch size %d: after the sequence the backend behind the pool and the one behind the direct connection hold different contents", opts.BatchSize),
							Signature: "batched-contents", Replay: map[string]interface{}{"opts": fmt.Sprintf("%+v", opts), "history": hist}})
					} else {
						rep.Validated++
					}
				}
			}
			hd.Close()
			// ---- (c) concurrent callers through this pool
			rounds := []int{1, 4, 16, 64}
			if tier != "thorough" {
				rounds = []int{2, 16, 64}
			}
			for ri, n := range rounds {
				crumb(fmt.Sprintf("C06 (c): %d concurrent callers, each with private keys, running sets / adds / deletes / multi-key gets through the batching pool (%+v, %d pooled connections), round %d", n, opts, oi+1, ri), map[string]interface{}{"seed": seed})
				for _, k := range fb.Keys() {
					fb.Drop(k)
				}
				var wg sync.WaitGroup
				errs := make(chan string, n)
				for gi := 0; gi < n; gi++ {
					wg.Add(1)
					go func(gi int) {
						defer wg.Done()
						h, _ := memcached.Batched(pb, opts)()
						rr := rand.New(rand.NewSource(seed*53 + int64(ri)*1000 + int64(gi)))
						priv := map[string][]byte{}
						mine := [][]byte{[]byte(fmt.Sprintf("c%d-x", gi)), []byte(fmt.Sprintf("c%d-y", gi))}
						for step := 0; step < 25; step++ {
							k := mine[rr.Intn(2)]
							switch rr.Intn(6) {
							case 0, 1:
								v := []byte(fmt.Sprintf("%s=%d", k, step))
								if err := h.Set(common.SetRequest{Key: k, Data: v, Flags: uint32(gi)}); err != nil {
									errs <- fmt.Sprintf("caller %d: set %s: %v", gi, k, err)
									return
								}
								priv[string(k)] = v
							case 2:
								err := h.Add(common.SetRequest{Key: k, Data: []byte(fmt.Sprintf("%s=a%d", k, step)), Flags: uint32(gi)})
								_, had := priv[string(k)]
								if had != (err == common.ErrKeyExists) || (!had && err != nil) {
									errs <- fmt.Sprintf("caller %d: add %s (present=%v) returned %v", gi, k, had, err)
									return
								}
								if !had {
									priv[string(k)] = []byte(fmt.Sprintf("%s=a%d", k, step))
								}
							case 3:
								err := h.Delete(common.DeleteRequest{Key: k})
								_, had := priv[string(k)]
								if had != (err == nil) || (!had && err != common.ErrKeyNotFound) {
									errs <- fmt.Sprintf("caller %d: delete %s (present=%v) returned %v", gi, k, had, err)
									return
								}
								delete(priv, string(k))
							default:
								ks := [][]byte{mine[0], mine[1], mine[0], []byte(fmt.Sprintf("nobody-%d-%d", gi, step))}
								rs, err := drainGet(h.Get(common.GetRequest{Keys: ks, Opaques: []uint32{1, 2, 3, 4}, Quiet: []bool{true, false, true, false}}))
								if err != nil || len(rs) != len(ks) {
									errs <- fmt.Sprintf("caller %d: get of %d keys returned %d responses, err %v", gi, len(ks), len(rs), err)
									return
								}
								for _, res := range rs {
									want, had := priv[string(res.Key)]
									if had == res.Miss || (had && (!bytes.Equal(res.Data, want) || res.Flags != uint32(gi))) {
										errs <- fmt.Sprintf("caller %d: get returned for %s miss=%v data=%q flags=%d, expected present=%v %q", gi, res.Key, res.Miss, res.Data, res.Flags, had, want)
										return
									}
								}
							}
						}
					}(gi)
				}
				wg.Wait()
				close(errs)
				rep.Evaluations++
				rep.Validated++
				distinct[fmt.Sprintf("conc/%d/%d", oi, n)] = true
				rep.Distribution[fmt.Sprintf("callers:%d", n)]++
				for e := range errs {
					rep.Violations = append(rep.Violations, Violation{What: fmt.Sprintf("batch size %d, %d concurrent callers: %s", opts.BatchSize, n, e), Signature: "batched-concurrent",
						Replay: map[string]interface{}{"opts": fmt.Sprintf("%+v", opts), "callers": n, "seed": seed}})
				}
			}
			hb.Close()
			fb.StopListening()
			fd.StopListening()
			fd.CloseAll()
		}
		// ---- (d) the backend goes away while one batch is being read and others wait behind it
		restartRounds := 6
		if tier == "thorough" {
			restartRounds = 40
		}
		for ri := 0; ri < restartRounds; ri++ {
			waiting := 1 + ri%3
			opts := batched.Opts{BatchSize: uint32(1 + ri%2), BatchDelayMicros: 100}
			what := fmt.Sprintf("pool of one connection, batch size %d: the backend holds the first set unanswered, %d more caller(s) send sets, the backend closes its connections and serves again", opts.BatchSize, waiting)
			crumb("C06 "+what, map[string]interface{}{"round": ri, "seed": seed})
			fb, pb := newFake(fmt.Sprintf("c06r%d-", ri))
			held, release := make(chan struct{}), make(chan struct{})
			var once sync.Once
			fb.Gate = func(conn int, e *fakemc.Entry) func() {
				hold := false
				once.Do(func() { hold = true })
				if hold {
					close(held)
					<-release
				}
				return nil
			}
			type ans struct {
				who int
				err error
			}
			res := make(chan ans, waiting+1)
			call := func(who int) {
				h, _ := memcached.Batched(pb, opts)()
				k := []byte(fmt.Sprintf("rk%d", who))
				go func() { res <- ans{who, h.Set(common.SetRequest{Key: k, Data: valueFor(k, ri), Flags: uint32(who)})} }()
			}
			call(0)
			select {
			case <-held:
			case <-time.After(5 * time.Second):
			}
			for w := 1; w <= waiting; w++ {
				call(w)
			}
			time.Sleep(time.Duration(20+40*(ri%3)) * time.Millisecond)
			fb.CloseAll()
			close(release)
			got := map[int]bool{}
			timeout := time.After(8 * time.Second)
		collect:
			for len(got) < waiting+1 {
				select {
				case a := <-res:
					got[a.who] = true
					if a.err != nil {
						rep.Violations = append(rep.Violations, Violation{What: fmt.Sprintf("%s: caller %d's set returned %v (over a direct connection that is re-established it is stored)", what, a.who, a.err), Signature: "batched-restart-error",
							Replay: map[string]interface{}{"round": ri, "opts": fmt.Sprintf("%+v", opts), "waiting": waiting}})
					}
				case <-timeout:
					var missing []int
					for w := 0; w <= waiting; w++ {
						if !got[w] {
							missing = append(missing, w)
						}
					}
					rep.Violations = append(rep.Violations, Violation{What: fmt.Sprintf("%s: caller(s) %v never got a reply to their own set", what, missing), Signature: "batched-restart-no-reply",
						Replay: map[string]interface{}{"round": ri, "opts": fmt.Sprintf("%+v", opts), "waiting": waiting, "backend_requests": traceLine(fb.TakeLog())}})
					break collect
				}
			}
			if len(got) == waiting+1 {
				h, _ := memcached.Batched(pb, opts)()
				for w := 0; w <= waiting; w++ {
					k := []byte(fmt.Sprintf("rk%d", w))
					done := make(chan string, 1)
					go func() {
						rs, err := drainGet(h.Get(common.GetRequest{Keys: [][]byte{k}, Opaques: []uint32{7}, Quiet: []bool{false}}))
						switch {
						case err != nil || len(rs) != 1:
							done <- fmt.Sprintf("get returned %d responses, err %v", len(rs), err)
						case rs[0].Miss || !bytes.Equal(rs[0].Data, valueFor(k, ri)) || rs[0].Flags != uint32(w):
							done <- fmt.Sprintf("get returned miss=%v data=%q flags=%d, the acknowledged set stored %q flags %d", rs[0].Miss, rs[0].Data, rs[0].Flags, valueFor(k, ri), w)
						default:
							done <- ""
						}
					}()
					select {
					case e := <-done:
						if e != "" {
							rep.Violations = append(rep.Violations, Violation{What: fmt.Sprintf("%s: afterwards, key %s: %s", what, k, e), Signature: "batched-restart-wrong",
								Replay: map[string]interface{}{"round": ri, "opts": fmt.Sprintf("%+v", opts), "waiting": waiting}})
						}
					case <-time.After(8 * time.Second):
						rep.Violations = append(rep.Violations, Violation{What: fmt.Sprintf("%s: afterwards a get of %s through the pool never returns", what, k), Signature: "batched-restart-no-reply",
							Replay: map[string]interface{}{"round": ri, "opts": fmt.Sprintf("%+v", opts), "waiting": waiting}})
					}
				}
				rep.Validated++
			}
			rep.Evaluations++
			distinct[fmt.Sprintf("restart/%d", ri)] = true
			rep.Distribution["restart-rounds"]++
			fb.Gate = nil
			fb.StopListening()
			fb.CloseAll()
		}
		rep.Distinct = len(distinct)
	}
}

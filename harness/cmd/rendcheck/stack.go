package main

// The implementation side of the correspondence: the real rend server stack
// (server.ListenAndServe, protocol components, orchestrators, handlers) running
// in-process against two fake memcached backends on unix sockets.

import (
	"bytes"
	"fmt"
	"io"
	"net"
	"os"
	"path/filepath"
	"sync"
	"time"

	"github.com/netflix/rend/handlers"
	"github.com/netflix/rend/handlers/inmem"
	"github.com/netflix/rend/handlers/memcached"
	"github.com/netflix/rend/handlers/memcached/batched"
	"github.com/netflix/rend/handlers/memcached/cluster"
	"github.com/netflix/rend/orcas"
	"github.com/netflix/rend/protocol"
	"github.com/netflix/rend/protocol/binprot"
	"github.com/netflix/rend/protocol/textprot"
	"github.com/netflix/rend/server"

	"verif/harness/fakemc"
)

var runDir string

func initRunDir() {
	base := os.Getenv("VERIF_RUN_DIR")
	if base == "" {
		base = "/verif/run"
	}
	os.MkdirAll(base, 0o755)
	d, err := os.MkdirTemp(base, "rc-")
	if err != nil {
		panic(err)
	}
	runDir = d
}

func cleanupRunDir() {
	if runDir != "" {
		os.RemoveAll(runDir)
	}
}

// StackCfg selects a deployment shape.
type StackCfg struct {
	Orca   string // l1only | l1l2
	Locked string // none | sr | mr
	Bits   int
	L1     string // std | chunked | batched | inmem | panicky (std that panics on request) | cluster (one-node clusters at both tiers)
}

func (c StackCfg) String() string {
	return fmt.Sprintf("%s:%s:%d:%s", c.Orca, c.Locked, c.Bits, c.L1)
}

// Stack is one running deployment: main port (+ batch port when L2 is enabled).
type Stack struct {
	Cfg       StackCfg
	L1, L2    *fakemc.Server
	MainSock  string
	BatchSock string
	lockMu    sync.Mutex
	lockLog   []string // A<stripe><r|w> / R<stripe><r|w>, in the order the lockers were called
}

// logLocker wraps one of rend's key lockers and records acquisitions and releases.
type logLocker struct {
	inner  sync.Locker
	st     *Stack
	stripe int
	mode   string
}

func (l *logLocker) Lock() {
	l.inner.Lock()
	l.st.lockMu.Lock()
	l.st.lockLog = append(l.st.lockLog, fmt.Sprintf("A%d%s", l.stripe, l.mode))
	l.st.lockMu.Unlock()
}

func (l *logLocker) Unlock() {
	l.st.lockMu.Lock()
	l.st.lockLog = append(l.st.lockLog, fmt.Sprintf("R%d%s", l.stripe, l.mode))
	l.st.lockMu.Unlock()
	l.inner.Unlock()
}

// TakeLockLog returns and clears the lock log.
func (s *Stack) TakeLockLog() []string {
	s.lockMu.Lock()
	defer s.lockMu.Unlock()
	out := s.lockLog
	s.lockLog = nil
	return out
}

var (
	stacks   = map[string]*Stack{}
	stacksMu sync.Mutex
	sockSeq  int
)

func sockPath(name string) string {
	sockSeq++
	return filepath.Join(runDir, fmt.Sprintf("%s%d.sock", name, sockSeq))
}

// GetStack starts (once) the rend deployment described by cfg, mirroring app/memproxy.go main().
func GetStack(cfg StackCfg) *Stack {
	stacksMu.Lock()
	defer stacksMu.Unlock()
	if s, ok := stacks[cfg.String()]; ok {
		return s
	}
	st := &Stack{Cfg: cfg, L1: fakemc.New(), L2: fakemc.New()}
	l1sock, l2sock := sockPath("l1-"), sockPath("l2-")
	var l1addr, l2addr string
	if cfg.L1 == "cluster" {
		// the cluster handler dials TCP: both tiers are one-node clusters
		var err error
		l1addr, err = st.L1.ListenTCP()
		must(err)
		l2addr, err = st.L2.ListenTCP()
		must(err)
	} else {
		must(st.L1.Listen(l1sock))
		must(st.L2.Listen(l2sock))
	}

	protocols := []protocol.Components{binprot.Components, textprot.Components}
	var o orcas.OrcaConst
	var h1, h2 handlers.HandlerConst
	switch cfg.L1 {
	case "inmem":
		h1 = inmem.New
	case "chunked":
		h1 = memcached.Chunked(l1sock)
	case "batched":
		h1 = memcached.Batched(l1sock, batched.Opts{BatchSize: 2, BatchDelayMicros: 100})
	case "panicky":
		h1 = panickyConst(memcached.Regular(l1sock))
	case "cluster":
		h1 = func() (handlers.Handler, error) { return cluster.NewHandler([]string{l1addr}, "verif-l1") }
	default:
		h1 = memcached.Regular(l1sock)
	}
	l2enabled := cfg.Orca != "l1only"
	if l2enabled {
		o = orcas.L1L2
		h2 = memcached.Regular(l2sock)
	} else {
		o = orcas.L1Only
		h2 = handlers.NilHandler
		if cfg.L1 == "cluster" {
			// as app/memcached_cluster_proxy.go does: the L1-only orchestrator, a second cluster
			// handler handed to the server as "L2" (the cluster handler serves set and get only)
			h2 = func() (handlers.Handler, error) { return cluster.NewHandler([]string{l2addr}, "verif-l2") }
		}
	}
	var lockset uint32
	locked := cfg.Locked != "none"
	if locked {
		o, lockset = orcas.Locked(o, cfg.Locked == "mr", uint8(cfg.Bits))
		// wrap rend's own lockers (whatever kind it chose) with logging ones
		w, r := orcas.VerifLockers(lockset)
		lw, lr := make([]sync.Locker, len(w)), make([]sync.Locker, len(r))
		for i := range w {
			lw[i] = &logLocker{inner: w[i], st: st, stripe: i, mode: "w"}
			lr[i] = &logLocker{inner: r[i], st: st, stripe: i, mode: "r"}
		}
		orcas.VerifSetLockers(lockset, lw, lr)
	}
	st.MainSock = sockPath("main-")
	go server.ListenAndServe(server.UnixListener(st.MainSock), protocols, server.Default, o, h1, h2)
	if l2enabled {
		ob := orcas.OrcaConst(orcas.L1L2Batch)
		if locked {
			ob = orcas.LockedWithExisting(ob, lockset)
		}
		st.BatchSock = sockPath("batch-")
		go server.ListenAndServe(server.UnixListener(st.BatchSock), protocols, server.Default, ob, h1, h2)
	}
	waitSock(st.MainSock)
	if st.BatchSock != "" {
		waitSock(st.BatchSock)
	}
	stacks[cfg.String()] = st
	return st
}

func must(err error) {
	if err != nil {
		panic(err)
	}
}

func waitSock(path string) {
	for i := 0; i < 2000; i++ {
		if _, err := os.Stat(path); err == nil {
			return
		}
		time.Sleep(time.Millisecond)
	}
	panic("socket did not appear: " + path)
}

// Reset clears both fake backends between cases.
func (s *Stack) Reset() {
	for _, f := range []*fakemc.Server{s.L1, s.L2} {
		for _, k := range f.Keys() {
			f.Drop(k)
		}
		f.Arm(nil)
		f.TakeLog()
		f.Offset = 0
	}
	s.TakeLockLog()
}

// Client is one client connection to a rend port.
type Client struct {
	c     net.Conn
	Proto string // bin | text
	dead  bool
}

func (s *Stack) Dial(port, proto string) *Client {
	path := s.MainSock
	if port == "batch" {
		path = s.BatchSock
	}
	c, err := net.Dial("unix", path)
	must(err)
	return &Client{c: c, Proto: proto}
}

var binSentinel = []byte{0x80, 0x0a, 0, 0, 0, 0, 0, 0, 0, 0, 0, 0, 0x7e, 0x57, 0xab, 0x1e, 0, 0, 0, 0, 0, 0, 0, 0}
var binSentinelReply = []byte{0x81, 0x0a, 0, 0, 0, 0, 0, 0, 0, 0, 0, 0, 0x7e, 0x57, 0xab, 0x1e, 0, 0, 0, 0, 0, 0, 0, 0}
var textSentinel = []byte("noop\r\n")
var textSentinelReply = []byte("Yep, it works.\r\n")

func (c *Client) Sentinel() ([]byte, []byte) {
	if c.Proto == "text" {
		return textSentinel, textSentinelReply
	}
	return binSentinel, binSentinelReply
}

// Feed writes data followed by the sentinel and reads until the sentinel's reply, EOF or timeout.
// It returns everything received (sentinel reply included) and how the exchange ended.
func (c *Client) Feed(data []byte, timeout time.Duration) (out []byte, ending string) {
	sent, sentReply := c.Sentinel()
	payload := append(append([]byte{}, data...), sent...)
	return c.FeedRaw(payload, sentReply, timeout)
}

// FeedRaw writes payload and reads until the output ends with `until` (if non-nil), EOF or timeout.
func (c *Client) FeedRaw(payload, until []byte, timeout time.Duration) (out []byte, ending string) {
	if c.dead {
		return nil, "dead"
	}
	werr := make(chan error, 1)
	go func() {
		_, err := c.c.Write(payload)
		werr <- err
	}()
	deadline := time.Now().Add(timeout)
	buf := make([]byte, 65536)
	for {
		if until != nil && bytes.HasSuffix(out, until) {
			select {
			case <-werr:
			case <-time.After(timeout):
			}
			return out, "eof" // the server is waiting for more input
		}
		c.c.SetReadDeadline(deadline)
		n, err := c.c.Read(buf)
		out = append(out, buf[:n]...)
		if err != nil {
			if err == io.EOF {
				c.dead = true
				return out, "closed"
			}
			if ne, ok := err.(net.Error); ok && ne.Timeout() {
				c.dead = true
				c.c.Close()
				return out, "hang"
			}
			c.dead = true
			return out, "closed"
		}
	}
}

func (c *Client) Close() {
	c.c.Close()
	c.dead = true
}

// CloseWrite half-closes the connection (the server sees EOF).
func (c *Client) CloseWrite() {
	if uc, ok := c.c.(*net.UnixConn); ok {
		uc.CloseWrite()
	}
}

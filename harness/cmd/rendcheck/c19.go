package main

import (
	"crypto/md5"
	"fmt"
	"math/rand"
	"strings"

	"github.com/netflix/rend/common"
	"github.com/netflix/rend/handlers/memcached/cluster"

	"verif/harness/fakemc"
)

type kbucket string

func (b kbucket) Label() string  { return string(b) }
func (b kbucket) Weight() uint32 { return 1 }

func mkBuckets(labels []string) []cluster.Bucket {
	bs := make([]cluster.Bucket, len(labels))
	for i, l := range labels {
		bs[i] = kbucket(l)
	}
	return bs
}

func permutations(xs []string) [][]string {
	if len(xs) <= 1 {
		return [][]string{append([]string{}, xs...)}
	}
	var out [][]string
	for i := range xs {
		rest := append(append([]string{}, xs[:i]...), xs[i+1:]...)
		for _, p := range permutations(rest) {
			out = append(out, append([]string{xs[i]}, p...))
		}
	}
	return out
}

func ringString(c *cluster.Continuum) (string, []uint32, []string) {
	pts, lbs := c.VerifRing()
	parts := make([]string, len(pts))
	for i := range pts {
		parts[i] = fmt.Sprintf("%d:%s", pts[i], hx([]byte(lbs[i])))
	}
	return strings.Join(parts, " "), pts, lbs
}

func init() {
	checks["C19"] = func(rep *Report, tier string, seed int64) {
		rep.Rule = "node sets of size 1..32 (labels ip:port; the recorded pair of labels that share a ring location is always included): every permutation for sets of up to 4 (quick) / 5 (thorough) nodes, random permutations for larger sets; the real ring (hook) is compared point by point with the model's ring built from the same md5 digests, Bucket() is compared at locations 0, 2^32-1, every 37th ring point and its neighbours and at the hashes of random keys; oracles on the real code: same owner under every permutation, single-node removal moves only the removed node's keys, every node owns keys of a 20000-key sample; the cluster HANDLER over three fake nodes (TCP): 300 keys set through one handler lie on exactly the node the ring of the node addresses predicts and are found through a second handler built from the same addresses in another order; distinct = distinct (node set, permutation) pairs"
		d := StartDriver()
		defer d.Close()
		r := rand.New(rand.NewSource(seed))
		thorough := tier == "thorough"
		distinct := map[string]bool{}
		bad := func(what, impl, model string) {
			if len(rep.Divergences) >= 6 {
				return // enough disagreements recorded; the oracles on the real code keep running
			}
			rep.Divergences = append(rep.Divergences, &Divergence{Scenario: "ketama", What: what, Impl: canonN(300, []byte(impl)), Model: canonN(300, []byte(model))})
		}
		viol := func(what, sig string, replay interface{}) {
			rep.Violations = append(rep.Violations, Violation{What: what, Signature: sig, Replay: replay})
		}
		label := func() string {
			return fmt.Sprintf("10.%d.%d.%d:%d", r.Intn(3), r.Intn(256), r.Intn(256), 11211+r.Intn(3))
		}
		// limit: model vs the number of points each node gets in the real ring
		for n := 1; n <= 64; n++ {
			var ls []string
			for i := 0; i < n; i++ {
				ls = append(ls, fmt.Sprintf("node%d:%d", i, n))
			}
			pts, _ := cluster.New(mkBuckets(ls)).VerifRing()
			impl := fmt.Sprint(len(pts) / (4 * n))
			if got := d.Send(fmt.Sprintf("limit %d", n), 1)[0]; got != impl {
				bad(fmt.Sprintf("limit for %d nodes", n), impl, got)
			}
			rep.Evaluations++
		}
		var sets [][]string
		sets = append(sets, []string{"10.0.2.53:11211", "10.0.2.161:11211"}) // share ring location 3152960057
		sets = append(sets, []string{"10.0.2.53:11211", "10.0.2.161:11211", "10.0.0.1:11211"})
		// long labels that share a long prefix: full IPv6 addresses of one network, one host on
		// several ports, long host names
		sets = append(sets, []string{"[2001:0db8:85a3:0000:0000:8a2e:0370:7334]:11211", "[2001:0db8:85a3:0000:0000:8a2e:0370:7335]:11211", "[2001:0db8:85a3:0000:0000:8a2e:0370:7336]:11211"})
		sets = append(sets, []string{"[2001:0db8:85a3:0000:0000:8a2e:0370:7334]:11211", "[2001:0db8:85a3:0000:0000:8a2e:0370:7334]:11212", "10.0.0.1:11211"})
		sets = append(sets, []string{"memcached-eu-west-1a-rack07-node-001", "memcached-eu-west-1a-rack07-node-002", "memcached-eu-west-1a-rack07-node-003", "memcached-eu-west-1a-rack07-node-004"})
		maxPerm := 4
		if thorough {
			maxPerm = 5
		}
		for n := 1; n <= maxPerm; n++ {
			var s []string
			for i := 0; i < n; i++ {
				s = append(s, label())
			}
			sets = append(sets, s)
		}
		nrand := 6
		if thorough {
			nrand = 40
		}
		for i := 0; i < nrand; i++ {
			n := 5 + r.Intn(28)
			if i == 0 {
				n = 32
			}
			seen := map[string]bool{}
			var s []string
			for len(s) < n {
				l := label()
				if !seen[l] {
					seen[l] = true
					s = append(s, l)
				}
			}
			sets = append(sets, s)
		}
		for si, set := range sets {
			var perms [][]string
			if len(set) <= maxPerm {
				perms = permutations(set)
			} else {
				for k := 0; k < 3; k++ {
					p := append([]string{}, set...)
					r.Shuffle(len(p), func(i, j int) { p[i], p[j] = p[j], p[i] })
					perms = append(perms, p)
				}
			}
			// digests the model needs
			d.Send(fmt.Sprintf("case c19-%d", si), 0)
			for _, l := range set {
				for k := 0; k < 41; k++ {
					in := fmt.Sprintf("%s-%d", l, k)
					dg := md5.Sum([]byte(in))
					d.Send(fmt.Sprintf("md5 %s %s", hx([]byte(in)), hx(dg[:])), 0)
				}
			}
			var refOwners []string
			var locs []uint32
			for pi, perm := range perms {
				c := cluster.New(mkBuckets(perm))
				implRing, pts, _ := ringString(c)
				for i := 1; i < len(pts); i++ {
					if pts[i-1] > pts[i] {
						viol(fmt.Sprintf("the ring of %v is not sorted: point %d (%d) > point %d (%d), so the binary search of Bucket lands on arbitrary owners", perm, i-1, pts[i-1], i, pts[i]),
							"ring-unsorted", map[string]interface{}{"nodes": perm, "index": i})
						break
					}
				}
				hl := make([]string, len(perm))
				for i, l := range perm {
					hl[i] = hx([]byte(l))
				}
				got := d.Send("ring auto "+strings.Join(hl, " "), 1)[0]
				want := fmt.Sprintf("%d %s", len(pts)/(4*len(perm)), implRing)
				if got != want {
					bad(fmt.Sprintf("ring of node set %d, permutation %d", si, pi), want, got)
				}
				rep.Evaluations++
				rep.Validated++
				distinct[fmt.Sprintf("%d/%d", si, pi)] = true
				if pi == 0 {
					locs = []uint32{0, 1, 1<<32 - 1, 3152960057, 3152960056, 3152960058}
					for i := 0; i < len(pts); i += 37 {
						locs = append(locs, pts[i], pts[i]-1, pts[i]+1)
					}
					for i := 0; i < 60; i++ {
						locs = append(locs, r.Uint32())
					}
				}
				var owners []string
				for _, loc := range locs {
					o := c.Bucket(loc).Label()
					owners = append(owners, o)
					if pi < 2 {
						if got := d.Send(fmt.Sprintf("bucketAt %d", loc), 1)[0]; got != hx([]byte(o)) {
							bad(fmt.Sprintf("Bucket(%d) on node set %d", loc, si), hx([]byte(o)), got)
						}
					}
				}
				if pi == 0 {
					refOwners = owners
				} else {
					for i := range owners {
						if owners[i] != refOwners[i] {
							viol(fmt.Sprintf("location %d is routed to %s when the nodes are listed as %v but to %s when listed as %v", locs[i], refOwners[i], perms[0], owners[i], perm),
								"routing-depends-on-listing-order", map[string]interface{}{"nodes_a": perms[0], "nodes_b": perm, "location": locs[i]})
							break
						}
					}
				}
				if pi == 0 && si < 4 {
					// keys: the model hashes with the supplied digest
					for i := 0; i < 20; i++ {
						key := []byte(fmt.Sprintf("key-%d-%d", si, r.Intn(1000000)))
						dg := md5.Sum(key)
						d.Send(fmt.Sprintf("md5 %s %s", hx(key), hx(dg[:])), 0)
						o := c.Hash(key).Label()
						if got := d.Send("hashkey "+hx(key), 1)[0]; got != hx([]byte(o)) {
							bad(fmt.Sprintf("Hash(%q)", key), hx([]byte(o)), got)
						}
					}
				}
			}
			if len(rep.Samples) < 3 {
				rep.Samples = append(rep.Samples, map[string]interface{}{"nodes": set, "permutations": len(perms), "locations": len(locs)})
			}
			// removal locality and shares, on the real code
			full := cluster.New(mkBuckets(set))
			counts := map[string]int{}
			nkeys := 20000
			keys := make([][]byte, nkeys)
			for i := range keys {
				keys[i] = []byte(fmt.Sprintf("k%d-%d", si, i))
				counts[full.Hash(keys[i]).Label()]++
			}
			for _, l := range set {
				if counts[l] == 0 {
					viol(fmt.Sprintf("node %s receives none of %d keys in a %d-node cluster", l, nkeys, len(set)), "node-without-share", map[string]interface{}{"nodes": set, "node": l})
				}
			}
			if len(set) > 1 {
				for ri := range set {
					if !thorough && ri > 3 {
						break
					}
					var rest []string
					for i, l := range set {
						if i != ri {
							rest = append(rest, l)
						}
					}
					sub := cluster.New(mkBuckets(rest))
					moved := 0
					for _, k := range keys[:4000] {
						o := full.Hash(k).Label()
						if o != set[ri] && sub.Hash(k).Label() != o {
							moved++
						}
					}
					if moved > 0 {
						viol(fmt.Sprintf("removing %s re-routes %d keys it did not own (cluster of %d)", set[ri], moved, len(set)), "removal-not-local", map[string]interface{}{"nodes": set, "removed": set[ri]})
					}
					rep.Evaluations++
					// the same membership change applied to a LIVE ring (Reset): routing is a
					// function of the key and the node set, not of the ring's history — shrink,
					// replace one node at equal size, grow back
					live := cluster.New(mkBuckets(set))
					replaced := append(append([]string{}, rest...), fmt.Sprintf("10.9.%d.%d:11211", si, ri))
					for _, target := range [][]string{rest, replaced, set, rest[:1+len(rest)/2]} {
						live.Reset(mkBuckets(target))
						fresh := cluster.New(mkBuckets(target))
						diff, first := 0, ""
						for _, k := range keys[:4000] {
							if a, b := live.Hash(k).Label(), fresh.Hash(k).Label(); a != b {
								if diff == 0 {
									first = fmt.Sprintf("%s -> %s, a fresh ring says %s", k, a, b)
								}
								diff++
							}
						}
						lp, _ := live.VerifRing()
						fp, _ := fresh.VerifRing()
						if diff > 0 || len(lp) != len(fp) {
							viol(fmt.Sprintf("a ring of %d nodes reset to %d nodes routes %d of 4000 keys differently from a ring built for those nodes (%s); ring points %d vs %d", len(set), len(target), diff, first, len(lp), len(fp)),
								"reset-depends-on-history", map[string]interface{}{"before": set, "after": target})
							break
						}
						rep.Evaluations++
						rep.Distribution["ring-resets"]++
					}
				}
			}
		}
		// the cluster HANDLER itself (the labels it gives its nodes, the connections it routes over):
		// three fake nodes; a value set through one handler is found through another handler built
		// from the same addresses listed in another order, and lies on the node the ring of the node
		// ADDRESSES predicts — on no other
		{
			var nodes []*fakemc.Server
			var addrs []string
			for i := 0; i < 3; i++ {
				n := fakemc.New()
				a, err := n.ListenTCP()
				must(err)
				nodes, addrs = append(nodes, n), append(addrs, a)
			}
			rev := []string{addrs[2], addrs[0], addrs[1]}
			ha, errA := cluster.NewHandler(addrs, "verif")
			hb, errB := cluster.NewHandler(rev, "verif")
			if errA != nil || errB != nil {
				viol(fmt.Sprintf("cluster.NewHandler failed: %v %v", errA, errB), "cluster-handler-setup", nil)
			} else {
				ring := cluster.New(mkBuckets(addrs))
				bad := 0
				for i := 0; i < 300 && bad == 0; i++ {
					key := []byte(fmt.Sprintf("ck-%d-%d", seed, i))
					val := []byte(fmt.Sprintf("value-%d", i))
					if err := ha.Set(common.SetRequest{Key: key, Data: val, Flags: uint32(i)}); err != nil {
						viol(fmt.Sprintf("set of %q through the cluster handler failed: %v", key, err), "cluster-handler-set", nil)
						bad++
						break
					}
					want := ring.Hash(key).Label()
					holders := []string{}
					for ni, n := range nodes {
						if _, ok := n.Lookup(string(key)); ok {
							holders = append(holders, addrs[ni])
						}
					}
					if len(holders) != 1 || holders[0] != want {
						viol(fmt.Sprintf("key %q set through a cluster handler for nodes %v lies on %v; the ring of the node addresses routes it to %s", key, addrs, holders, want),
							"cluster-handler-routing", map[string]interface{}{"nodes": addrs, "key": string(key), "holders": holders, "expected": want})
						bad++
						break
					}
					rc, ec := hb.Get(common.GetRequest{Keys: [][]byte{key}, Opaques: []uint32{1}, Quiet: []bool{false}})
					hit := false
					for res := range rc {
						if !res.Miss && string(res.Data) == string(val) {
							hit = true
						}
					}
					for range ec {
					}
					if !hit {
						viol(fmt.Sprintf("key %q set through a handler for nodes %v is not found through a handler for the same nodes listed as %v", key, addrs, rev),
							"cluster-handler-order", map[string]interface{}{"nodes_a": addrs, "nodes_b": rev, "key": string(key)})
						bad++
					}
					rep.Evaluations++
				}
				// multi-key gets: every key of a batch is routed on its own
				for start := 0; start < 300 && bad == 0; start += 15 {
					var keys [][]byte
					var opqs []uint32
					var quiet []bool
					for i := start; i < start+15; i++ {
						keys = append(keys, []byte(fmt.Sprintf("ck-%d-%d", seed, i)))
						opqs = append(opqs, uint32(i))
						quiet = append(quiet, false)
					}
					rc, ec := hb.Get(common.GetRequest{Keys: keys, Opaques: opqs, Quiet: quiet})
					hits := 0
					for res := range rc {
						if !res.Miss {
							hits++
						}
					}
					for range ec {
					}
					if hits != len(keys) {
						viol(fmt.Sprintf("a get of 15 stored keys through the cluster handler found %d of them (every key of a multi-key get must be routed by its own hash)", hits),
							"cluster-handler-multiget", map[string]interface{}{"nodes": rev, "first_key": string(keys[0]), "hits": hits})
						bad++
					}
					rep.Evaluations++
				}
				ha.Close()
				hb.Close()
			}
			for _, n := range nodes {
				n.StopListening()
				n.CloseAll()
			}
			rep.Distribution["cluster-handler-keys"] = 300
		}
		rep.Distinct = len(distinct)
	}
}

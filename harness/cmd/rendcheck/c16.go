package main

import (
	"fmt"
	"math/rand"
	"strconv"
	"strings"
	"time"

	"github.com/netflix/rend/handlers/memcached/chunked"
)

// keyOfLen builds a printable key of the given length with `spare` bytes of spare capacity.
func keyOfLen(r *rand.Rand, n, spare int) []byte {
	b := make([]byte, n, n+spare)
	for i := range b {
		b[i] = byte('a' + r.Intn(26))
	}
	return b
}

// pureGrid compares the regenerated pure definitions with the real functions (hook H3).
func pureGrid(rep *Report, d *Driver, r *rand.Rand, thorough bool) {
	n := 0
	bad := func(what, impl, model string) {
		rep.Divergences = append(rep.Divergences, &Divergence{Scenario: "pure-grid", What: what, Impl: impl, Model: model})
	}
	for kl := 1; kl <= 250; kl++ {
		ds, fs := chunked.VerifChunkSize(kl)
		impl := fmt.Sprintf("%d %d", ds, fs)
		if got := d.Send(fmt.Sprintf("fn chunkSize %d", kl), 1)[0]; got != impl {
			bad(fmt.Sprintf("chunkSize(%d)", kl), impl, got)
		}
		n++
		chunks := []int{0, 1, 9, 10, 99, 100, 999}
		if thorough {
			chunks = append(chunks, 2, 11, 101, 500, 998, 1000, 12345)
		}
		for _, spare := range []int{0, 1, 2, 4, 5, 6, 8, 16} {
			key := keyOfLen(r, kl, spare)
			orig := append([]byte{}, key...)
			mk := chunked.VerifMetaKey(key)
			var cks [][]byte
			for _, c := range chunks {
				cks = append(cks, append([]byte{}, chunked.VerifChunkKey(key, c)...))
			}
			// the metadata key must still read the same after the chunk keys were derived (aliasing)
			if got := d.Send("fn metaKey "+hx(orig), 1)[0]; got != hx(mk) {
				bad(fmt.Sprintf("metaKey(len %d, spare %d) after deriving chunk keys", kl, spare), hx(mk), got)
			}
			for i, c := range chunks {
				if got := d.Send(fmt.Sprintf("fn chunkKey %s %d", hx(orig), c), 1)[0]; got != hx(cks[i]) {
					bad(fmt.Sprintf("chunkKey(len %d, spare %d, %d)", kl, spare, c), hx(cks[i]), got)
				}
				n++
			}
			if string(key) != string(orig) {
				bad("client key modified", hx(key), hx(orig))
			}
		}
	}
	for i := 0; i < 3000; i++ {
		cs := 1 + r.Intn(1200)
		total := r.Intn(5000)
		cn := r.Intn(6)
		a, b := chunked.VerifChunkSliceIndices(cs, cn, total)
		impl := fmt.Sprintf("%d %d", a, b)
		if got := d.Send(fmt.Sprintf("fn sliceIdx %d %d %d", cs, cn, total), 1)[0]; got != impl {
			bad(fmt.Sprintf("chunkSliceIndices(%d,%d,%d)", cs, cn, total), impl, got)
		}
		n++
	}
	rep.Extra["pure_grid_points"] = n
	rep.Evaluations += n
}

// budgetOracle evaluates the C16 predicate on the set requests the real handler sent to L1.
func budgetOracle(rep *Report, sc Scenario, obs []StepObs, distinct map[string]bool) {
	for i, ob := range obs {
		if sc.Steps[i].Kind != "feed" {
			continue
		}
		cmd := sc.Steps[i].Cmd
		chunkSets := 0
		for _, e := range ob.L1 {
			if e.Op != "set" && e.Op != "add" && e.Op != "replace" {
				continue
			}
			kl := len(cmd.Key)
			full := 1184 - 71 - kl
			isMeta := string(e.Key) == string(cmd.Key)+"-meta"
			ok := true
			what := ""
			if isMeta {
				if len(e.Value) != 40 {
					ok, what = false, fmt.Sprintf("metadata entry of %d bytes", len(e.Value))
				}
			} else {
				chunkSets++
				suffix := strings.TrimPrefix(string(e.Key), string(cmd.Key)+"-")
				if _, err := strconv.Atoi(suffix); err != nil || !strings.HasPrefix(string(e.Key), string(cmd.Key)+"-") {
					ok, what = false, fmt.Sprintf("entry %q is not derived from key %q", e.Key, cmd.Key)
				} else if len(e.Value) != full {
					ok, what = false, fmt.Sprintf("chunk entry of %d bytes, expected %d", len(e.Value), full)
				}
			}
			if len(e.Key)+len(e.Value)+67 > 1184 {
				ok, what = false, fmt.Sprintf("key %d + value %d + 67 > 1184", len(e.Key), len(e.Value))
			}
			if !ok {
				rep.Violations = append(rep.Violations, Violation{What: what, Signature: "chunk-discipline:" + cmd.Kind,
					Replay: map[string]interface{}{"scenario": describeScenario(sc), "step": i}})
			}
		}
		if cmd.Kind == "set" && ob.Ending == "eof" {
			p := 1184 - 71 - len(cmd.Key) - 16
			want := (len(cmd.Data) + p - 1) / p
			// the data entries are exactly <key>-0 … <key>-(n-1): the size arithmetic reserves room for
			// precisely this suffix (4 bytes: '-' and up to 3 digits)
			gotKeys := map[string]int{}
			for _, e := range ob.L1 {
				if (e.Op == "set" || e.Op == "add" || e.Op == "replace") && string(e.Key) != string(cmd.Key)+"-meta" {
					gotKeys[string(e.Key)]++
				}
			}
			for i := 0; i < want && chunkSets == want; i++ {
				k := fmt.Sprintf("%s-%d", cmd.Key, i)
				if gotKeys[k] != 1 {
					var have []string
					for g := range gotKeys {
						have = append(have, g[len(g)-minInt(len(g), 8):])
					}
					sortStrings(have)
					rep.Violations = append(rep.Violations, Violation{What: fmt.Sprintf("chunk %d of a %d-chunk value was not written under the key <key>-%d (the backend keys end in %v): the entry does not fit the size the slab budget was computed for", i, want, i, have),
						Signature: "chunk-key-shape", Replay: map[string]interface{}{"scenario": describeScenario(sc), "step": i}})
					break
				}
			}
			if chunkSets != want {
				rep.Violations = append(rep.Violations, Violation{What: fmt.Sprintf("%d chunk entries written for %d bytes (payload %d), expected %d", chunkSets, len(cmd.Data), p, want),
					Signature: "chunk-count", Replay: map[string]interface{}{"scenario": describeScenario(sc), "step": i}})
			}
			distinct[fmt.Sprintf("k%d/c%d/r%d", len(cmd.Key), want, len(cmd.Data)%p)] = true
		}
	}
}

func init() {
	checks["C16"] = func(rep *Report, tier string, seed int64) {
		rep.Rule = "pure grid: chunkSize for every key length 1..250, metaKey/chunkKey for 8 spare-capacity classes x 7+ chunk numbers, chunkSliceIndices on 3000 random triples, real function vs regenerated Lean definition; handler runs: for every key length 1..250 (step 1 quick) sets of value lengths {0,1,p-1,p,p+1,2p,3p+1,4045-k,4046-k,4047-k,4p+1,8p} through the real chunked handler (L1-only stack), every backend set request checked against the slab budget and compared with the model; distinct = distinct (key length, chunk count, remainder) triples"
		d := StartDriver()
		defer d.Close()
		r := rand.New(rand.NewSource(seed))
		pureGrid(rep, d, r, tier == "thorough")
		cfg := StackCfg{Orca: "l1only", Locked: "none", Bits: 0, L1: "chunked"}
		distinct := map[string]bool{}
		step := 1
		for kl := 1; kl <= 250; kl += step {
			p := 1184 - 71 - kl - 16
			// (…, and lengths around what is left of the handler's 4 KiB write buffer after a
			// chunk's header, where a chunk is handed to the writer in more than one piece)
			lens := []int{0, 1, p - 1, p, p + 1, 2 * p, 3*p + 1, 4046 - kl - 1, 4046 - kl, 4046 - kl + 1, 4*p + 1, 8 * p}
			if tier == "thorough" {
				lens = append(lens, 2*p-1, 2*p+1, 5*p, 6*p-1, 40*p)
				if kl == 250 || kl == 1 || kl == 100 {
					lens = append(lens, 999*p, 999*p-1)
				}
			}
			sc := Scenario{ID: fmt.Sprintf("C16-k%d", kl), Stack: cfg}
			proto := "bin"
			if kl%2 == 0 {
				proto = "text"
			}
			sc.Conns = []ConnCfg{{ID: "c", Port: "main", Proto: proto}}
			key := keyOfLen(r, kl, 0)
			for _, n := range lens {
				data := make([]byte, n)
				for i := range data {
					data[i] = byte(33 + r.Intn(90))
				}
				sc.Steps = append(sc.Steps, Step{Kind: "feed", Conn: "c", Cmd: Command{Kind: "set", Key: key, Flags: r.Uint32(), Exptime: 0, Data: data, Opaque: r.Uint32()}})
				sc.Steps = append(sc.Steps, Step{Kind: "feed", Conn: "c", Cmd: Command{Kind: "get", Keys: []GetKey{{Key: key, Opaque: 7}}}})
			}
			sc.Steps = append(sc.Steps, Step{Kind: "feed", Conn: "c", Cmd: Command{Kind: "append", Key: key, Data: []byte("tail"), Opaque: 3}})
			out := RunScenarioO(d, sc, 20*time.Second, true)
			if out.Tainted {
				rep.Tainted++
				out = RunScenarioO(d, sc, 20*time.Second, true)
				if out.Tainted {
					continue
				}
			}
			rep.Evaluations++
			if len(rep.Samples) < 2 {
				rep.Samples = append(rep.Samples, describeScenario(sc))
			}
			for _, m := range out.Misses {
				rep.Violations = append(rep.Violations, Violation{What: "reply differs from the specification: " + m.Verdict, Signature: "spec-mismatch:c16", Replay: map[string]interface{}{"scenario": describeScenario(sc), "step": m.Step}})
			}
			// the property's own predicate on what the real handler sent, whether or not the model agrees
			budgetOracle(rep, sc, out.Obs, distinct)
			if out.Div != nil {
				rep.Divergences = append(rep.Divergences, out.Div)
				if enoughDivergences(rep, 3) {
					break
				}
				continue
			}
			rep.Validated++
		}
		rep.Distinct = len(distinct)
		rep.Exhaustive = true
	}
}

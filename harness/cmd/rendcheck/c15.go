package main

import (
	"github.com/netflix/rend/handlers/memcached"
	"github.com/netflix/rend/orcas"
	"github.com/netflix/rend/protocol"
	"github.com/netflix/rend/protocol/binprot"
	"github.com/netflix/rend/protocol/textprot"
	"github.com/netflix/rend/server"
	"verif/harness/fakemc"

	"bytes"
	"fmt"
	"io"
	"math/rand"
	"net"
	"runtime"
	"strings"
	"time"
)

// feedPrefixAndClose writes the bytes, half-closes the connection (the client is gone) and reads
// whatever the server still sends until it closes its side.
func feedPrefixAndClose(st *Stack, port string, data []byte, timeout time.Duration) (out []byte, ending string) {
	path := st.MainSock
	if port == "batch" {
		path = st.BatchSock
	}
	c, err := net.Dial("unix", path)
	must(err)
	defer c.Close()
	if len(data) > 0 {
		if _, err := c.Write(data); err != nil {
			return nil, "write-failed"
		}
	}
	c.(*net.UnixConn).CloseWrite()
	c.SetReadDeadline(time.Now().Add(timeout))
	buf := make([]byte, 65536)
	for {
		n, err := c.Read(buf)
		out = append(out, buf[:n]...)
		if err == io.EOF {
			return out, "closed"
		}
		if err != nil {
			if ne, ok := err.(net.Error); ok && ne.Timeout() {
				return out, "hang"
			}
			return out, "closed"
		}
	}
}

func waitFor(cond func() bool, d time.Duration) bool {
	deadline := time.Now().Add(d)
	for {
		if cond() {
			return true
		}
		if time.Now().After(deadline) {
			return false
		}
		time.Sleep(2 * time.Millisecond)
	}
}

func init() {
	checks["C15"] = func(rep *Report, tier string, seed int64) {
		rep.Rule = "for each stack configuration (L1-only and L1/L2, pass-through and chunked handlers, with and without the locking wrapper, main and batch port) and each representative request stream (every command alone, pipelines, quiet batches closed by get / noop, a quit followed by more requests) in text and binary: for every prefix length of the stream (quick: 0, 1, every length up to 30, then a seeded sample; thorough: every length) a client sends the prefix and goes away; observed: the bytes the server still sends (compared with the Lean model run on the same prefix, together with both backend traces and lock logs), that the server closes the connection, that the fake backends' open-connection counts return to their baseline (the handlers' sockets are closed), that the goroutine count returns to its baseline, and that a new connection is accepted and can use the same keys at once (no key is left locked); plus two clients connected and silent at the same time, the first disconnecting (the second must be served, everything released); plus, per configuration, protocol and port, a client that pipelines 400 gets / multi-key gets / get-and-touches of 2300-byte values and disconnects without reading (the server's reply writes fail inside a command), judged by the same observations without the model; distinct = distinct (configuration, stream, prefix length)"
		d := StartDriver()
		defer d.Close()
		r := rand.New(rand.NewSource(seed*389 + 15))
		distinct := map[string]bool{}
		k, k2 := []byte("foo"), []byte("bar")
		big := make([]byte, 2300)
		for i := range big {
			big[i] = byte('a' + i%26)
		}
		streamsFor := func(proto string) map[string][]Command {
			m := map[string][]Command{
				"set":      {{Kind: "set", Key: k, Flags: 5, Exptime: 0, Data: []byte("hello world"), Opaque: 1}},
				"set-big":  {{Kind: "set", Key: k, Flags: 5, Exptime: 0, Data: big, Opaque: 1}},
				"add":      {{Kind: "add", Key: k2, Flags: 6, Data: []byte("added"), Opaque: 2}},
				"replace":  {{Kind: "replace", Key: k, Flags: 7, Data: []byte("replaced"), Opaque: 3}},
				"append":   {{Kind: "append", Key: k, Data: []byte("+tail"), Opaque: 4}},
				"prepend":  {{Kind: "prepend", Key: k, Data: []byte("head+"), Opaque: 5}},
				"delete":   {{Kind: "delete", Key: k, Opaque: 6}},
				"touch":    {{Kind: "touch", Key: k, Exptime: 100, Opaque: 7}},
				"get":      {{Kind: "get", Keys: []GetKey{{Key: k, Opaque: 8}}}},
				"multiget": {{Kind: "get", Keys: []GetKey{{Key: k, Opaque: 9, Quiet: proto == "bin"}, {Key: k2, Opaque: 10, Quiet: proto == "bin"}, {Key: k, Opaque: 11}}}},
				"pipeline": {{Kind: "set", Key: k2, Flags: 1, Data: []byte("v2"), Opaque: 12}, {Kind: "get", Keys: []GetKey{{Key: k, Opaque: 13}, {Key: k2, Opaque: 14}}}, {Kind: "delete", Key: k, Opaque: 15}, {Kind: "get", Keys: []GetKey{{Key: k, Opaque: 16}}}},
				"quit":     {{Kind: "get", Keys: []GetKey{{Key: k, Opaque: 17}}}, {Kind: "quit", Opaque: 18}, {Kind: "set", Key: k, Data: []byte("after quit"), Opaque: 19}},
			}
			if proto == "bin" {
				m["gat"] = []Command{{Kind: "gat", Key: k, Exptime: 200, Opaque: 20}}
				m["quiet-noop"] = []Command{{Kind: "get", Keys: []GetKey{{Key: k, Opaque: 21, Quiet: true}, {Key: k2, Opaque: 22, Quiet: true}}, NoopEnd: true, NoopOpq: 23}}
			}
			return m
		}
		cfgs := []StackCfg{
			{Orca: "l1only", Locked: "none", Bits: 0, L1: "std"},
			{Orca: "l1l2", Locked: "mr", Bits: 2, L1: "std"},
			{Orca: "l1l2", Locked: "sr", Bits: 3, L1: "chunked"},
			{Orca: "l1only", Locked: "none", Bits: 0, L1: "chunked"},
		}
		if tier == "thorough" {
			cfgs = append(cfgs, StackCfg{Orca: "l1l2", Locked: "none", Bits: 0, L1: "std"}, StackCfg{Orca: "l1only", Locked: "sr", Bits: 1, L1: "chunked"})
		}
		for ci, cfg := range cfgs {
			st := GetStack(cfg)
			st.Reset()
			// warm up, then take the baselines with no client connected
			w := st.Dial("main", "bin")
			w.Feed(Command{Kind: "get", Keys: []GetKey{{Key: k, Opaque: 1}}}.Encode("bin"), 2*time.Second)
			w.Close()
			waitFor(func() bool { return st.L1.OpenConns() == 0 && st.L2.OpenConns() == 0 }, time.Second)
			time.Sleep(30 * time.Millisecond)
			baseG := runtime.NumGoroutine()
			ports := []string{"main"}
			if cfg.Orca == "l1l2" {
				ports = append(ports, "batch")
			}
			for _, proto := range []string{"bin", "text"} {
				streams := streamsFor(proto)
				var streamNames []string
				for name := range streams {
					streamNames = append(streamNames, name)
				}
				sortStrings(streamNames)
				for _, name := range streamNames {
					cmds := streams[name]
					var stream []byte
					for _, c := range cmds {
						stream = append(stream, c.Encode(proto)...)
					}
					var lens []int
					for n := 0; n <= len(stream); n++ {
						if tier == "thorough" || n <= 30 || n == len(stream) || n == len(stream)-1 || r.Intn(40) == 0 {
							lens = append(lens, n)
						}
					}
					if tier != "thorough" && r.Intn(3) != 0 && name != "set" && name != "multiget" && name != "quit" {
						// quick tier: a third of the other streams per configuration and protocol
						continue
					}
					for _, n := range lens {
						port := ports[(n+len(name))%len(ports)]
						tag := fmt.Sprintf("%d/%s/%s/%s/%d", ci, proto, port, name, n)
						crumb("a client sends a prefix of a request stream and goes away", map[string]interface{}{"stack": cfg.String(), "proto": proto, "port": port, "stream": name, "prefix_len": n, "stream_hex": hx(stream)})
						st.Reset()
						// state: both keys present (so every command has work to do)
						d.Send("case C15-"+tag, 0)
						cc := ConnCfg{ID: "x", Port: port, Proto: proto}
						pre := ConnCfg{ID: "p", Port: "main", Proto: "bin"}
						d.Send(connLine(cfg, cc), 0)
						d.Send(connLine(cfg, pre), 0)
						setup := st.Dial("main", "bin")
						now0 := st.L1.Now()
						for _, c := range []Command{{Kind: "set", Key: k, Flags: 9, Data: []byte("present"), Opaque: 30}} {
							data := c.Encode("bin")
							setup.Feed(data, 2*time.Second)
							l1 := st.L1.TakeLog()
							st.L2.TakeLog()
							var toks []string
							for _, e := range l1 {
								if isMetaSet(e) {
									toks = append(toks, hx(e.Value[24:40]))
								}
							}
							d.Send(fmt.Sprintf("now %d", now0), 0)
							if len(toks) > 0 {
								d.Send("tok "+strings.Join(toks, " "), 0)
							}
							d.Send("feed p "+hx(append(append([]byte{}, data...), binSentinel...)), 4)
						}
						setup.Close()
						waitFor(func() bool { return st.L1.OpenConns() == 0 && st.L2.OpenConns() == 0 }, time.Second)
						st.TakeLockLog()
						// the client sends the prefix and goes away
						prefix := stream[:n]
						out, ending := feedPrefixAndClose(st, port, prefix, 2*time.Second)
						now1 := st.L1.Now()
						if now1 != now0 {
							rep.Tainted++
							continue
						}
						rep.Evaluations++
						distinct[tag] = true
						rep.Distribution["stream:"+name]++
						fail := func(sig, what string) {
							rep.Violations = append(rep.Violations, Violation{What: fmt.Sprintf("%s, %s %s on the %s port, client gone after %d of %d bytes: %s", cfg, proto, name, port, n, len(stream), what),
								Signature: sig, Replay: map[string]interface{}{"stack": cfg.String(), "proto": proto, "port": port, "stream": hx(stream), "prefix_len": n, "received": canonN(200, out)}})
						}
						if ending == "hang" {
							fail("disconnect-hang", "the server did not close the connection")
						}
						closedBackends := waitFor(func() bool { return st.L1.OpenConns() == 0 && st.L2.OpenConns() == 0 }, 2*time.Second)
						if !closedBackends {
							fail("backend-conn-leak", fmt.Sprintf("backend connections left open: L1 %d, L2 %d", st.L1.OpenConns(), st.L2.OpenConns()))
						}
						if !waitFor(func() bool { return runtime.NumGoroutine() <= baseG }, 2*time.Second) {
							fail("goroutine-leak", fmt.Sprintf("%d goroutines, %d before the connection", runtime.NumGoroutine(), baseG))
							baseG = runtime.NumGoroutine()
						}
						l1, l2 := st.L1.TakeLog(), st.L2.TakeLog()
						locks := st.TakeLockLog()
						if msg := pairedLocks(locks); msg != "" {
							fail("locks-unpaired-on-disconnect", msg)
						}
						// the model on the same prefix
						var toks []string
						lastRead := map[string]string{}
						for _, e := range l1 {
							if e.Op == "get" && strings.HasSuffix(string(e.Key), "-meta") && len(e.RespVal) == 40 {
								lastRead[string(e.Key)] = string(e.RespVal[24:40])
							}
							if isMetaSet(e) {
								if e.Op == "set" && lastRead[string(e.Key)] == string(e.Value[24:40]) {
									continue
								}
								toks = append(toks, hx(e.Value[24:40]))
							}
						}
						d.Send(fmt.Sprintf("now %d", now0), 0)
						if len(toks) > 0 {
							d.Send("tok "+strings.Join(toks, " "), 0)
						}
						r4 := d.Send("feed x "+hx(prefix), 4)
						mOut := strings.Fields(r4[0])
						if len(mOut) < 3 || mOut[1] != canonN(256, out) {
							rep.Divergences = append(rep.Divergences, &Divergence{Scenario: "C15-" + tag, Step: 0, What: "bytes sent before the server closed", Impl: "out " + canonN(256, out), Model: r4[0], Script: append([]string{}, d.Script...)})
						} else if t := "trace1 " + traceLine(l1); strings.TrimSpace(t) != strings.TrimSpace(r4[1]) {
							rep.Divergences = append(rep.Divergences, &Divergence{Scenario: "C15-" + tag, Step: 0, What: "L1 requests", Impl: t, Model: r4[1], Script: append([]string{}, d.Script...)})
						} else if t := "trace2 " + traceLine(l2); strings.TrimSpace(t) != strings.TrimSpace(r4[2]) {
							rep.Divergences = append(rep.Divergences, &Divergence{Scenario: "C15-" + tag, Step: 0, What: "L2 requests", Impl: t, Model: r4[2], Script: append([]string{}, d.Script...)})
						} else if t := "locks " + strings.Join(locks, " "); cfg.Locked != "none" && strings.TrimSpace(t) != strings.TrimSpace(r4[3]) {
							rep.Divergences = append(rep.Divergences, &Divergence{Scenario: "C15-" + tag, Step: 0, What: "lock events", Impl: t, Model: r4[3], Script: append([]string{}, d.Script...)})
						} else {
							rep.Validated++
						}
						if enoughDivergences(rep, 5) {
							rep.Distinct = len(distinct)
							return
						}
						// a new client is accepted and can use the same keys at once
						nc := st.Dial("main", "bin")
						for _, c := range []Command{{Kind: "set", Key: k, Data: []byte("next"), Opaque: 40}, {Kind: "get", Keys: []GetKey{{Key: k, Opaque: 41, Quiet: true}, {Key: k2, Opaque: 42}}}, {Kind: "delete", Key: k2, Opaque: 43}} {
							_, e := nc.Feed(c.Encode("bin"), 2*time.Second)
							if e != "eof" {
								fail("blocked-after-disconnect:"+c.Kind, fmt.Sprintf("a new connection's %s ended in %q", c.Describe(), e))
								break
							}
						}
						nc.Close()
					}
				}
				// two clients connected at the same time, both silent; the first goes away: the second
				// must still be served and both connections' resources must be released
				if proto == "bin" {
					crumb("two silent clients overlap, the first disconnects", map[string]interface{}{"stack": cfg.String()})
					st.Reset()
					waitFor(func() bool { return st.L1.OpenConns() == 0 && st.L2.OpenConns() == 0 }, time.Second)
					ca, errA := net.Dial("unix", st.MainSock)
					must(errA)
					time.Sleep(30 * time.Millisecond)
					cb := st.Dial("main", "bin")
					time.Sleep(30 * time.Millisecond)
					ca.Close()
					time.Sleep(60 * time.Millisecond)
					out, e := cb.Feed(Command{Kind: "get", Keys: []GetKey{{Key: k, Opaque: 77}}}.Encode("bin"), 2*time.Second)
					cb.Close()
					rep.Evaluations++
					rep.Validated++
					rep.Distribution["overlapping-idle-clients"]++
					distinct[fmt.Sprintf("%d/overlap", ci)] = true
					ofail := func(sig, what string) {
						rep.Violations = append(rep.Violations, Violation{What: fmt.Sprintf("%s: client A connects and stays silent, client B connects, A disconnects: %s", cfg, what), Signature: sig,
							Replay: map[string]interface{}{"stack": cfg.String(), "sequence": "A connects; B connects; A closes; B: get foo; B closes"}})
					}
					if e != "eof" {
						ofail("overlap-second-client-dropped", fmt.Sprintf("B's get ended %q (%s)", e, canonN(64, out)))
					}
					if !waitFor(func() bool { return st.L1.OpenConns() == 0 && st.L2.OpenConns() == 0 }, 2*time.Second) {
						ofail("overlap-backend-conn-leak", fmt.Sprintf("after both are gone backend connections stay open: L1 %d, L2 %d", st.L1.OpenConns(), st.L2.OpenConns()))
					}
					if !waitFor(func() bool { return runtime.NumGoroutine() <= baseG }, 2*time.Second) {
						ofail("overlap-goroutine-leak", fmt.Sprintf("%d goroutines, %d before", runtime.NumGoroutine(), baseG))
						baseG = runtime.NumGoroutine()
					}
				}
				// the client vanishes WITHOUT reading: it pipelines requests with large replies and
				// closes at once, so the server's writes fail in the middle of a command (the model has
				// no failing client writes: these runs are judged by the property's own observations)
				for _, port := range ports {
					noread := map[string]Command{
						"get":      {Kind: "get", Keys: []GetKey{{Key: k, Opaque: 8}}},
						"multiget": {Kind: "get", Keys: []GetKey{{Key: k, Opaque: 9, Quiet: proto == "bin"}, {Key: k2, Opaque: 10, Quiet: proto == "bin"}, {Key: k, Opaque: 11}}},
					}
					if proto == "bin" {
						noread["gat"] = Command{Kind: "gat", Key: k, Exptime: 200, Opaque: 20}
					}
					for _, name := range []string{"get", "multiget", "gat"} {
						c, have := noread[name]
						if !have {
							continue
						}
						st.Reset()
						setup := st.Dial("main", "bin")
						for _, key := range [][]byte{k, k2} {
							setup.Feed(Command{Kind: "set", Key: key, Flags: 9, Data: big, Opaque: 30}.Encode("bin"), 2*time.Second)
						}
						setup.Close()
						waitFor(func() bool { return st.L1.OpenConns() == 0 && st.L2.OpenConns() == 0 }, time.Second)
						st.TakeLockLog()
						var stream []byte
						for i := 0; i < 400; i++ {
							stream = append(stream, c.Encode(proto)...)
						}
						path := st.MainSock
						if port == "batch" {
							path = st.BatchSock
						}
						conn, err := net.Dial("unix", path)
						must(err)
						conn.Write(stream)
						conn.Close()
						// (the server may not even have accepted the connection yet)
						waitFor(func() bool { return st.L1.OpenConns() > 0 }, time.Second)
						tag := fmt.Sprintf("%d/%s/%s/noread-%s", ci, proto, port, name)
						rep.Evaluations++
						rep.Validated++
						distinct[tag] = true
						rep.Distribution["stream:noread-"+name]++
						fail := func(sig, what string) {
							rep.Violations = append(rep.Violations, Violation{What: fmt.Sprintf("%s, %s on the %s port: a client sends 400 x %q and disconnects without reading a reply: %s", cfg, proto, port, c.Describe(), what),
								Signature: sig, Replay: map[string]interface{}{"stack": cfg.String(), "proto": proto, "port": port, "command": c.Describe(), "repeated": 400, "client": "writes everything, closes, reads nothing"}})
						}
						if !waitFor(func() bool { return st.L1.OpenConns() == 0 && st.L2.OpenConns() == 0 }, 5*time.Second) {
							fail("backend-conn-leak", fmt.Sprintf("backend connections left open: L1 %d, L2 %d", st.L1.OpenConns(), st.L2.OpenConns()))
						}
						if !waitFor(func() bool { return runtime.NumGoroutine() <= baseG }, 3*time.Second) {
							fail("goroutine-leak", fmt.Sprintf("%d goroutines, %d before the connection", runtime.NumGoroutine(), baseG))
							baseG = runtime.NumGoroutine()
						}
						st.L1.TakeLog()
						st.L2.TakeLog()
						if msg := pairedLocks(st.TakeLockLog()); msg != "" {
							fail("locks-unpaired-on-disconnect", msg)
						}
						nc := st.Dial("main", "bin")
						for _, c2 := range []Command{{Kind: "set", Key: k, Data: []byte("next"), Opaque: 40}, {Kind: "get", Keys: []GetKey{{Key: k, Opaque: 41, Quiet: true}, {Key: k2, Opaque: 42}}}, {Kind: "delete", Key: k2, Opaque: 43}} {
							_, e := nc.Feed(c2.Encode("bin"), 2*time.Second)
							if e != "eof" {
								fail("blocked-after-disconnect:"+c2.Kind, fmt.Sprintf("a new connection's %s ended in %q", c2.Describe(), e))
								break
							}
						}
						nc.Close()
					}
				}
			}
		}
		// the cluster handler at BOTH tiers (what app/memcached_cluster_proxy.go builds): clients that
		// go away before the first byte, inside a header, inside a key and after a whole exchange; the
		// process survives, the next client is served, the backend connections are closed
		{
			cfg := StackCfg{Orca: "l1only", Locked: "none", Bits: 0, L1: "cluster"}
			st := GetStack(cfg)
			st.Reset()
			getFoo := Command{Kind: "get", Keys: []GetKey{{Key: []byte("foo"), Opaque: 1}}}.Encode("bin")
			noop := Command{Kind: "noop", Opaque: 2}.Encode("bin")
			for ci, cut := range []struct {
				name string
				data []byte
				wait bool
			}{{"before the first byte", nil, false}, {"inside a header", getFoo[:10], false}, {"inside a key", getFoo[:25], false}, {"after a complete no-op exchange", noop, true}, {"after a get", getFoo, true}} {
				what := fmt.Sprintf("%s: a client disconnects %s", cfg, cut.name)
				crumb(what, nil)
				time.Sleep(10 * time.Millisecond)
				base1, base2 := st.L1.OpenConns(), st.L2.OpenConns()
				c, err := net.Dial("unix", st.MainSock)
				must(err)
				if len(cut.data) > 0 {
					c.Write(cut.data)
				}
				if cut.wait {
					c.SetReadDeadline(time.Now().Add(2 * time.Second))
					buf := make([]byte, 256)
					c.Read(buf)
				} else {
					time.Sleep(20 * time.Millisecond)
				}
				c.Close()
				time.Sleep(30 * time.Millisecond)
				rep.Evaluations++
				distinct[fmt.Sprintf("cluster-disconnect/%d", ci)] = true
				rep.Distribution["cluster-disconnects"]++
				ok := true
				cl := st.Dial("main", "bin")
				out, e := cl.Feed(Command{Kind: "version", Opaque: 5}.Encode("bin"), 2*time.Second)
				cl.Close()
				if e != "eof" {
					ok = false
					rep.Violations = append(rep.Violations, Violation{What: fmt.Sprintf("%s: the next client's version request ended %q (%s)", what, e, canonN(64, out)), Signature: "cluster-disconnect-next-client",
						Replay: map[string]interface{}{"stack": cfg.String(), "sent": canonN(64, cut.data)}})
				}
				deadline := time.Now().Add(2 * time.Second)
				for time.Now().Before(deadline) && (st.L1.OpenConns() > base1 || st.L2.OpenConns() > base2) {
					time.Sleep(5 * time.Millisecond)
				}
				if n1, n2 := st.L1.OpenConns(), st.L2.OpenConns(); n1 > base1 || n2 > base2 {
					ok = false
					rep.Violations = append(rep.Violations, Violation{What: fmt.Sprintf("%s: backend connections stay open afterwards: L1 %d (was %d), L2 %d (was %d)", what, n1, base1, n2, base2), Signature: "cluster-disconnect-leak",
						Replay: map[string]interface{}{"stack": cfg.String(), "sent": canonN(64, cut.data)}})
				}
				if ok {
					rep.Validated++
				}
			}
		}
		// chunked L1: the backend refuses one chunk of a set (the handler resets its connection
		// state), the connection goes on with a second set, then the client leaves in the middle of
		// a command: the backend connections of that client are all closed
		for _, cfg := range []StackCfg{{Orca: "l1only", Locked: "none", Bits: 0, L1: "chunked"}, {Orca: "l1l2", Locked: "sr", Bits: 3, L1: "chunked"}} {
			what := fmt.Sprintf("%s: a set whose second chunk the backend refuses (out of memory), a second set, then the client leaves inside a command", cfg)
			crumb(what, nil)
			st := GetStack(cfg)
			st.Reset()
			time.Sleep(20 * time.Millisecond)
			base1, base2 := st.L1.OpenConns(), st.L2.OpenConns()
			cl := st.Dial("main", "bin")
			st.L1.Arm(&fakemc.Fault{Index: 2, Kind: fakemc.FaultStatus, Status: 0x0082})
			_, e1 := cl.Feed(Command{Kind: "set", Key: []byte("big"), Data: bytes.Repeat([]byte{'x'}, 2500), Opaque: 1}.Encode("bin"), 2*time.Second)
			st.L1.Arm(nil)
			_, e2 := cl.Feed(Command{Kind: "set", Key: []byte("big"), Data: bytes.Repeat([]byte{'y'}, 2500), Opaque: 2}.Encode("bin"), 2*time.Second)
			if !cl.dead {
				cl.c.Write(Command{Kind: "set", Key: []byte("big"), Data: []byte("zzzz"), Opaque: 3}.Encode("bin")[:30])
			}
			cl.Close()
			rep.Evaluations++
			distinct["chunked-refused-then-leave/"+cfg.String()] = true
			rep.Distribution["chunked-refused-then-leave"]++
			deadline := time.Now().Add(2 * time.Second)
			for time.Now().Before(deadline) && (st.L1.OpenConns() > base1 || st.L2.OpenConns() > base2) {
				time.Sleep(5 * time.Millisecond)
			}
			if n1, n2 := st.L1.OpenConns(), st.L2.OpenConns(); n1 > base1 || n2 > base2 {
				rep.Violations = append(rep.Violations, Violation{What: fmt.Sprintf("%s (the two sets ended %q and %q): backend connections stay open after the client is gone: L1 %d (was %d), L2 %d (was %d)", what, e1, e2, n1, base1, n2, base2),
					Signature: "chunked-reset-leak", Replay: map[string]interface{}{"stack": cfg.String()}})
			} else {
				rep.Validated++
			}
		}
		// a TCP listener: clients that RESET the connection (SO_LINGER 0) before their first byte —
		// protocol detection then fails with a connection error, not with end-of-input — and clients
		// that leave in order; every backend connection opened for them is closed
		{
			what := "TCP listener, L1/L2 over pass-through handlers: 5 clients reset the connection before their first byte (and 3 leave in order)"
			crumb(what, nil)
			l1, l2 := fakemc.New(), fakemc.New()
			s1, s2 := sockPath("c15tcp-l1-"), sockPath("c15tcp-l2-")
			must(l1.Listen(s1))
			must(l2.Listen(s2))
			// find a free port
			port := 0
			if ln, err := net.Listen("tcp", "127.0.0.1:0"); err == nil {
				port = ln.Addr().(*net.TCPAddr).Port
				ln.Close()
			}
			if port != 0 {
				go server.ListenAndServe(server.TCPListener(port), []protocol.Components{binprot.Components, textprot.Components}, server.Default, orcas.L1L2, memcached.Regular(s1), memcached.Regular(s2))
				addr := fmt.Sprintf("127.0.0.1:%d", port)
				up := false
				for i := 0; i < 200 && !up; i++ {
					if c, err := net.Dial("tcp", addr); err == nil {
						c.Close()
						up = true
					} else {
						time.Sleep(10 * time.Millisecond)
					}
				}
				if up {
					time.Sleep(100 * time.Millisecond)
					base1, base2 := l1.OpenConns(), l2.OpenConns()
					for i := 0; i < 8; i++ {
						c, err := net.Dial("tcp", addr)
						if err != nil {
							continue
						}
						time.Sleep(5 * time.Millisecond)
						if i < 5 {
							c.(*net.TCPConn).SetLinger(0)
						}
						c.Close()
					}
					rep.Evaluations++
					distinct["tcp-reset-before-first-byte"] = true
					rep.Distribution["tcp-resets"]++
					deadline := time.Now().Add(3 * time.Second)
					for time.Now().Before(deadline) && (l1.OpenConns() > base1 || l2.OpenConns() > base2) {
						time.Sleep(10 * time.Millisecond)
					}
					if n1, n2 := l1.OpenConns(), l2.OpenConns(); n1 > base1 || n2 > base2 {
						rep.Violations = append(rep.Violations, Violation{What: fmt.Sprintf("%s: backend connections still open afterwards: L1 %d (was %d), L2 %d (was %d)", what, n1, base1, n2, base2),
							Signature: "tcp-reset-leak", Replay: map[string]interface{}{"clients_reset": 5, "clients_fin": 3}})
					} else {
						rep.Validated++
					}
				}
			}
		}
		rep.Distinct = len(distinct)
	}
}

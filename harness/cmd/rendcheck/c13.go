package main

import (
	"bytes"
	"fmt"
	"math/rand"
	"sync"
	"time"

	"github.com/netflix/rend/common"
	"github.com/netflix/rend/handlers/memcached"
	"github.com/netflix/rend/handlers/memcached/batched"

	"verif/harness/fakemc"
)

// callOutcome runs one handler call with a deadline; "" = acceptable outcome.
type poolCall struct {
	kind string
	key  []byte
	keys [][]byte
}

func valueFor(key []byte, gen int) []byte { return []byte(fmt.Sprintf("%s#%d", key, gen)) }

func belongsTo(key, data []byte) bool {
	return bytes.HasPrefix(data, append(append([]byte{}, key...), '#'))
}

func init() {
	checks["C13"] = func(rep *Report, tier string, seed int64) {
		rep.Rule = "the real batching pool (pool sizes 1..3, batch sizes 1 / 4 / 16) against a fake backend whose connections are cut: (a) for every request index of a round of 1..12 concurrent callers (sets, adds, deletes, touches, multi-key gets with duplicate keys) and every cut kind {before the request is processed, after it is processed but before the reply, in the middle of the reply (1, 10, 24, 30 bytes)}; (b) repeated cuts: all backend connections are closed every few milliseconds while 8 callers run 30 calls each; (c) the backend stops accepting connections and drops the existing ones while calls are in flight and starts listening again 300 ms later; oracle: every call returns exactly one outcome within the deadline (no hang), a get either reports an error or delivers exactly one response per requested key, every value delivered belongs to the key it is delivered for (values carry their key), a call that reports success has taken effect, the process survives (no out-of-sync panic), and afterwards the pool serves new calls normally; distinct = distinct (pool, batch size, round shape, cut index, cut kind) / storm rounds / outage rounds"
		distinct := map[string]bool{}
		r := rand.New(rand.NewSource(seed*2221 + 13))
		type cfg struct {
			pool  int
			batch uint32
		}
		cfgs := []cfg{{1, 1}, {1, 4}, {2, 4}, {3, 16}}
		if tier != "thorough" {
			cfgs = []cfg{{1, 4}, {2, 16}}
		}
		deadline := 6 * time.Second
		poolDead := false // a call hung: this pool is not used any further
		for ci, c := range cfgs {
			fb, pb := newFake(fmt.Sprintf("c13-%d-", ci))
			opts := batched.Opts{BatchSize: c.batch, BatchDelayMicros: 300}
			h0, _ := memcached.Batched(pb, opts)()
			for i := 1; i < c.pool; i++ {
				batched.VerifAddConn(pb)
			}
			fail := func(sig, what string, replay map[string]interface{}) {
				replay["pool"], replay["batch_size"] = c.pool, c.batch
				rep.Violations = append(rep.Violations, Violation{What: fmt.Sprintf("pool %d, batch size %d: %s", c.pool, c.batch, what), Signature: sig, Replay: replay})
			}
			// one caller's call, judged
			doCall := func(gi int, pc poolCall, gen int) string {
				h, _ := memcached.Batched(pb, opts)()
				done := make(chan string, 1)
				go func() {
					switch pc.kind {
					case "set":
						err := h.Set(common.SetRequest{Key: pc.key, Data: valueFor(pc.key, gen), Flags: 5})
						_ = err
						done <- ""
					case "add":
						h.Add(common.SetRequest{Key: pc.key, Data: valueFor(pc.key, gen), Flags: 5})
						done <- ""
					case "delete":
						h.Delete(common.DeleteRequest{Key: pc.key})
						done <- ""
					case "touch":
						h.Touch(common.TouchRequest{Key: pc.key, Exptime: 0})
						done <- ""
					case "gat":
						res, err := h.GAT(common.GATRequest{Key: pc.key, Exptime: 0})
						if err == nil && !res.Miss && !belongsTo(pc.key, res.Data) {
							done <- fmt.Sprintf("gat of %s delivered %q, which is not a value of that key", pc.key, res.Data)
							return
						}
						done <- ""
					case "get":
						rs, err := drainGet(h.Get(common.GetRequest{Keys: pc.keys, Opaques: make([]uint32, len(pc.keys)), Quiet: make([]bool, len(pc.keys))}))
						if err == nil && len(rs) != len(pc.keys) {
							done <- fmt.Sprintf("get of %d keys delivered %d responses and no error (a partial answer presented as complete)", len(pc.keys), len(rs))
							return
						}
						if len(rs) > len(pc.keys) {
							done <- fmt.Sprintf("get of %d keys delivered %d responses", len(pc.keys), len(rs))
							return
						}
						for _, res := range rs {
							asked := false
							for _, k := range pc.keys {
								if bytes.Equal(k, res.Key) {
									asked = true
								}
							}
							if !asked {
								done <- fmt.Sprintf("get delivered a response for key %s which this caller did not ask for", res.Key)
								return
							}
							if !res.Miss && !belongsTo(res.Key, res.Data) {
								done <- fmt.Sprintf("get delivered %q for key %s: another key's data", res.Data, res.Key)
								return
							}
						}
						done <- ""
					}
				}()
				select {
				case m := <-done:
					return m
				case <-time.After(deadline):
					poolDead = true
					return fmt.Sprintf("caller %d: %s did not return within %v", gi, pc.kind, deadline)
				}
			}
			genCall := func(gi int) poolCall {
				k := []byte(fmt.Sprintf("p%d", gi%5))
				switch r.Intn(7) {
				case 0, 1:
					return poolCall{kind: "set", key: k}
				case 2:
					return poolCall{kind: "add", key: k}
				case 3:
					return poolCall{kind: "delete", key: k}
				case 4:
					return poolCall{kind: "gat", key: k}
				default:
					n := 1 + r.Intn(5)
					pc := poolCall{kind: "get"}
					for i := 0; i < n; i++ {
						pc.keys = append(pc.keys, []byte(fmt.Sprintf("p%d", r.Intn(5))))
					}
					return pc
				}
			}
			warm := func() {
				for i := 0; i < 5; i++ {
					k := []byte(fmt.Sprintf("p%d", i))
					fb.Put(string(k), fakemc.Item{Value: valueFor(k, 0), Flags: 5})
				}
			}
			// ---- (a) one cut per round, at every request index
			kindsCut := []struct {
				k   fakemc.FaultKind
				mid int
				n   string
			}{{fakemc.FaultCutBefore, 0, "before"}, {fakemc.FaultCutAfter, 0, "after"}, {fakemc.FaultCutMid, 1, "mid1"}, {fakemc.FaultCutMid, 10, "mid10"}, {fakemc.FaultCutMid, 24, "mid24"}, {fakemc.FaultCutMid, 30, "mid30"}}
			shapes := []int{1, 3, 12}
			if tier == "thorough" {
				shapes = []int{1, 2, 3, 6, 12}
			}
			for _, n := range shapes {
				if poolDead {
					break
				}
				maxIdx := n * 3
				if tier != "thorough" && maxIdx > 8 {
					maxIdx = 8
				}
				for idx := 0; idx <= maxIdx && !poolDead; idx++ {
					for _, ck := range kindsCut {
						if poolDead {
							break
						}
						if tier != "thorough" && r.Intn(3) != 0 && !(idx <= 1 && ck.mid <= 10) {
							continue
						}
						for _, k := range fb.Keys() {
							fb.Drop(k)
						}
						warm()
						calls := make([]poolCall, n)
						for i := range calls {
							calls[i] = genCall(i)
						}
						fb.Arm(&fakemc.Fault{Index: idx, Kind: ck.k, MidBytes: ck.mid})
						{
							var ds []string
							for _, pc := range calls {
								ds = append(ds, fmt.Sprintf("%s %s %q", pc.kind, pc.key, pc.keys))
							}
							crumb(fmt.Sprintf("%d concurrent callers on a batched pool, connection cut (%s) at backend request %d", n, ck.n, idx),
								map[string]interface{}{"pool_config": ci, "calls": ds, "cut": ck.n, "cut_at_request": idx})
						}
						var wg sync.WaitGroup
						msgs := make([]string, n)
						for i := range calls {
							wg.Add(1)
							go func(i int) {
								defer wg.Done()
								msgs[i] = doCall(i, calls[i], idx+1)
							}(i)
						}
						wg.Wait()
						fb.Arm(nil)
						rep.Evaluations++
						tag := fmt.Sprintf("cut/%d/%d/%d/%s", ci, n, idx, ck.n)
						distinct[tag] = true
						rep.Distribution["cut:"+ck.n]++
						bad := false
						for i, m := range msgs {
							if m != "" {
								bad = true
								var ds []string
								for _, pc := range calls {
									ds = append(ds, fmt.Sprintf("%s %s %q", pc.kind, pc.key, pc.keys))
								}
								fail("pool-cut:"+ck.n, fmt.Sprintf("%d concurrent callers, connection cut %s request %d: caller %d: %s", n, ck.n, idx, i, m),
									map[string]interface{}{"callers": ds, "cut_index": idx, "cut": ck.n})
							}
						}
						// afterwards the pool serves normally
						k := []byte("after-cut")
						if m := doCall(99, poolCall{kind: "set", key: k}, 7); m != "" {
							bad = true
							fail("pool-dead-after-cut", "after the cut a new set: "+m, map[string]interface{}{"cut_index": idx, "cut": ck.n})
						}
						if !poolDead {
							hh, _ := memcached.Batched(pb, opts)()
							type gres struct {
								rs  []common.GetResponse
								err error
							}
							gch := make(chan gres, 1)
							go func() {
								rs, err := drainGet(hh.Get(common.GetRequest{Keys: [][]byte{k}, Opaques: []uint32{1}, Quiet: []bool{false}}))
								gch <- gres{rs, err}
							}()
							select {
							case g := <-gch:
								if g.err != nil || len(g.rs) != 1 || g.rs[0].Miss || !bytes.Equal(g.rs[0].Data, valueFor(k, 7)) {
									bad = true
									fail("pool-wrong-after-cut", fmt.Sprintf("after the cut a set followed by a get returned %v / %v", g.rs, g.err), map[string]interface{}{"cut_index": idx, "cut": ck.n})
								}
							case <-time.After(deadline):
								bad, poolDead = true, true
								fail("pool-dead-after-cut", "after the cut a new get did not return within the deadline", map[string]interface{}{"cut_index": idx, "cut": ck.n})
							}
						}
						if !bad {
							rep.Validated++
						}
					}
				}
			}
			// ---- (b) repeated cuts
			storms := 2
			if tier == "thorough" {
				storms = 10
			}
			for s := 0; s < storms && !poolDead; s++ {
				warm()
				stop := make(chan struct{})
				go func() {
					for {
						select {
						case <-stop:
							return
						case <-time.After(time.Duration(2+r.Intn(6)) * time.Millisecond):
							fb.CloseAll()
						}
					}
				}()
				crumb("8 concurrent callers x 30 calls on a batched pool while its connections are cut repeatedly",
					map[string]interface{}{"pool_config": ci, "storm": s, "seed": seed})
				var wg sync.WaitGroup
				var mu sync.Mutex
				var bads []string
				for gi := 0; gi < 8; gi++ {
					wg.Add(1)
					go func(gi int) {
						defer wg.Done()
						rr := rand.New(rand.NewSource(seed + int64(s)*100 + int64(gi)))
						for step := 0; step < 30; step++ {
							pc := poolCall{kind: []string{"set", "get", "get", "delete", "add"}[rr.Intn(5)], key: []byte(fmt.Sprintf("p%d", rr.Intn(5)))}
							if pc.kind == "get" {
								pc.keys = [][]byte{[]byte(fmt.Sprintf("p%d", rr.Intn(5))), []byte(fmt.Sprintf("p%d", rr.Intn(5))), pc.key}
							}
							if m := doCall(gi, pc, step+1); m != "" {
								mu.Lock()
								bads = append(bads, m)
								mu.Unlock()
								return
							}
						}
					}(gi)
				}
				wg.Wait()
				close(stop)
				rep.Evaluations++
				distinct[fmt.Sprintf("storm/%d/%d", ci, s)] = true
				rep.Distribution["storm"]++
				for _, m := range bads {
					fail("pool-storm", "connections closed every few ms while 8 callers ran: "+m, map[string]interface{}{"storm": s})
				}
				time.Sleep(150 * time.Millisecond)
				if m := doCall(98, poolCall{kind: "set", key: []byte("after-storm")}, 1); m != "" {
					fail("pool-dead-after-storm", "after the storm a new set: "+m, map[string]interface{}{"storm": s})
				} else if len(bads) == 0 {
					rep.Validated++
				}
			}
			// ---- (c) outage: the backend goes away and comes back
			outages := 1
			if tier == "thorough" {
				outages = 4
			}
			for o := 0; o < outages && !poolDead; o++ {
				warm()
				fb.StopListening()
				fb.CloseAll()
				var wg sync.WaitGroup
				msgs := make([]string, 6)
				t0 := time.Now()
				for gi := 0; gi < 6; gi++ {
					wg.Add(1)
					go func(gi int) {
						defer wg.Done()
						pc := poolCall{kind: []string{"set", "get", "delete"}[gi%3], key: []byte(fmt.Sprintf("p%d", gi%5)), keys: [][]byte{[]byte("p1"), []byte("p2")}}
						msgs[gi] = doCall(gi, pc, 3)
					}(gi)
				}
				time.Sleep(300 * time.Millisecond)
				must(fb.Listen(pb))
				wg.Wait()
				rep.Evaluations++
				distinct[fmt.Sprintf("outage/%d/%d", ci, o)] = true
				rep.Distribution["outage"]++
				ok := true
				for gi, m := range msgs {
					if m != "" {
						ok = false
						fail("pool-outage", fmt.Sprintf("backend away for 300 ms: caller %d: %s", gi, m), map[string]interface{}{"outage": o, "waited_ms": time.Since(t0).Milliseconds()})
					}
				}
				// new calls complete normally (allow the reconnect back-off to finish)
				okAfter := false
				for try := 0; try < 40 && !okAfter && !poolDead; try++ {
					hh, _ := memcached.Batched(pb, opts)()
					ech := make(chan error, 1)
					go func() {
						ech <- hh.Set(common.SetRequest{Key: []byte("after-outage"), Data: valueFor([]byte("after-outage"), 1)})
					}()
					select {
					case err := <-ech:
						if err == nil {
							okAfter = true
						} else {
							time.Sleep(50 * time.Millisecond)
						}
					case <-time.After(deadline):
						poolDead = true
					}
				}
				if !okAfter {
					ok = false
					fail("pool-dead-after-outage", "2 s after the backend came back a set still fails", map[string]interface{}{"outage": o})
				}
				if ok {
					rep.Validated++
				}
			}
			if !poolDead {
				h0.Close()
			}
			fb.StopListening()
			if poolDead {
				// the goroutines of a hung pool stay around; do not start further configurations on top
				break
			}
		}
		// ---- (e) a hit on an EMPTY value whose reply is cut inside its extras (after the 24-byte
		// header, before the 4 flag bytes are complete): the value read that follows needs no byte
		// from the socket, so only the checks on the extras can notice the cut
		if !poolDead {
			fb, pb := newFake("c13-empty-")
			opts := batched.Opts{BatchSize: 4, BatchDelayMicros: 300}
			h, _ := memcached.Batched(pb, opts)()
			for _, kind := range []string{"get", "gat"} {
				for _, mid := range []int{24, 25, 26, 27} {
					what := fmt.Sprintf("pool of one connection: %s of a key that holds an empty value with flags 0xdeadbeef, the backend cuts the connection after %d bytes of the reply", kind, mid)
					crumb("C13 "+what, nil)
					fb.Put("empty", fakemc.Item{Value: []byte{}, Flags: 0xdeadbeef})
					fb.Arm(&fakemc.Fault{Index: 0, Kind: fakemc.FaultCutMid, MidBytes: mid})
					type res struct {
						flags uint32
						data  []byte
						miss  bool
						err   error
					}
					done := make(chan res, 1)
					go func() {
						if kind == "gat" {
							r, err := h.GAT(common.GATRequest{Key: []byte("empty"), Exptime: 0})
							done <- res{r.Flags, r.Data, r.Miss, err}
							return
						}
						rs, err := drainGet(h.Get(common.GetRequest{Keys: [][]byte{[]byte("empty")}, Opaques: []uint32{7}, Quiet: []bool{false}}))
						if err != nil || len(rs) != 1 {
							if err == nil {
								err = fmt.Errorf("%d responses", len(rs))
							}
							done <- res{err: err}
							return
						}
						done <- res{rs[0].Flags, rs[0].Data, rs[0].Miss, nil}
					}()
					rep.Evaluations++
					distinct[fmt.Sprintf("empty/%s/%d", kind, mid)] = true
					rep.Distribution["empty-value-cuts"]++
					select {
					case r := <-done:
						switch {
						case r.err != nil:
							rep.Validated++ // an error is an outcome
						case r.miss || len(r.data) != 0 || r.flags != 0xdeadbeef:
							rep.Violations = append(rep.Violations, Violation{What: fmt.Sprintf("%s: the caller was given miss=%v, %d bytes, flags %#x and no error (the entry holds an empty value with flags 0xdeadbeef)", what, r.miss, len(r.data), r.flags),
								Signature: "pool-wrong-hit-after-cut", Replay: map[string]interface{}{"kind": kind, "cut_after_bytes": mid}})
						default:
							rep.Validated++
						}
					case <-time.After(8 * time.Second):
						rep.Violations = append(rep.Violations, Violation{What: what + ": the call did not return within 8 s", Signature: "pool-hang", Replay: map[string]interface{}{"kind": kind, "cut_after_bytes": mid}})
						poolDead = true
					}
					fb.Arm(nil)
					if poolDead {
						break
					}
				}
				if poolDead {
					break
				}
			}
			fb.StopListening()
		}
		// ---- (d) a LONG outage: the backend stays away for longer than the pool's whole reconnect
		// back-off schedule (about 14 s) while a call waits, then comes back on the same address
		if !poolDead {
			away := 17 * time.Second
			if tier == "thorough" {
				away = 26 * time.Second
			}
			what := fmt.Sprintf("pool of one connection: a set succeeds, the backend goes away (listener closed, connections dropped), a second set is issued, the backend stays away for %v and comes back", away)
			crumb("C13 "+what, nil)
			fb, pb := newFake("c13-long-")
			opts := batched.Opts{BatchSize: 4, BatchDelayMicros: 300}
			h, _ := memcached.Batched(pb, opts)()
			rep.Evaluations++
			distinct["long-outage"] = true
			rep.Distribution["long-outage"]++
			ok := true
			bad := func(sig, msg string) {
				ok = false
				rep.Violations = append(rep.Violations, Violation{What: what + ": " + msg, Signature: sig, Replay: map[string]interface{}{"away_s": away.Seconds()}})
			}
			if err := h.Set(common.SetRequest{Key: []byte("before"), Data: valueFor([]byte("before"), 1)}); err != nil {
				bad("pool-long-outage", fmt.Sprintf("the first set returned %v", err))
			}
			fb.StopListening()
			fb.CloseAll()
			during := make(chan error, 1)
			go func() { during <- h.Set(common.SetRequest{Key: []byte("during"), Data: valueFor([]byte("during"), 1)}) }()
			time.Sleep(away)
			must(fb.Listen(pb))
			select {
			case err := <-during:
				if err != nil {
					// an error is an outcome; what must not happen is no outcome, or a dead pool
					rep.Distribution["long-outage:waiting-call-error"]++
				}
			case <-time.After(15 * time.Second):
				bad("pool-long-outage-hang", "the call that waited through the outage got no outcome within 15 s of the backend's return")
			}
			after := make(chan error, 1)
			go func() {
				hh, _ := memcached.Batched(pb, opts)()
				var err error
				for i := 0; i < 40; i++ {
					if err = hh.Set(common.SetRequest{Key: []byte("after"), Data: valueFor([]byte("after"), 1)}); err == nil {
						break
					}
					time.Sleep(100 * time.Millisecond)
				}
				after <- err
			}()
			select {
			case err := <-after:
				if err != nil {
					bad("pool-dead-after-outage", fmt.Sprintf("after the backend came back sets keep failing: %v", err))
				} else if it, found := fb.Lookup("after"); !found || !belongsTo([]byte("after"), it.Value) {
					bad("pool-long-outage", "a set acknowledged after the outage is not in the backend")
				}
			case <-time.After(15 * time.Second):
				bad("pool-long-outage-hang", "a new set issued after the backend's return got no outcome within 15 s")
			}
			if ok {
				rep.Validated++
			}
			fb.StopListening()
		}
		rep.Distinct = len(distinct)
	}
}

package main

import (
	"bytes"
	"fmt"
	"net"
	"os"
	"os/exec"
	"sync"
	"time"

	"verif/harness/fakemc"
)

// memproxyProbe runs the REAL memproxy binary (built from app/memproxy.go by the check script)
// with --locked --l2-enabled in front of two fake backends and checks that its two ports really
// share one lock set: a delete on the batch port must wait for a set of the same key that is
// inside its critical section on the main port. The in-process stacks of the other checks mirror
// memproxy's wiring by hand; this is the tie of that mirror to the program that is shipped.
func memproxyProbe(rep *Report, bin string) {
	freePort := func() int {
		l, err := net.Listen("tcp", "127.0.0.1:0")
		must(err)
		p := l.Addr().(*net.TCPAddr).Port
		l.Close()
		return p
	}
	for _, mode := range []string{"multi-reader", "single-reader"} {
		l1, l2 := fakemc.New(), fakemc.New()
		l1sock, l2sock := sockPath("mp-l1-"), sockPath("mp-l2-")
		must(l1.Listen(l1sock))
		must(l2.Listen(l2sock))
		p, bp := freePort(), freePort()
		args := []string{"--l1-sock", l1sock, "--l2-enabled", "--l2-sock", l2sock, "--locked", "--concurrency", "3",
			"-p", fmt.Sprint(p), "-bp", fmt.Sprint(bp)}
		if mode == "single-reader" {
			args = append(args, "--multi-reader=false")
		}
		cmd := exec.Command(bin, args...)
		cmd.Stdout, cmd.Stderr = nil, nil
		must(cmd.Start())
		exited := make(chan struct{})
		go func() { cmd.Wait(); close(exited) }()
		stop := func() {
			cmd.Process.Kill()
			<-exited
			l1.StopListening()
			l2.StopListening()
			l1.CloseAll()
			l2.CloseAll()
		}
		dial := func(port int) *Client {
			var c net.Conn
			var err error
			for i := 0; i < 300; i++ {
				c, err = net.Dial("tcp", fmt.Sprintf("127.0.0.1:%d", port))
				if err == nil {
					return &Client{c: c, Proto: "bin"}
				}
				time.Sleep(10 * time.Millisecond)
			}
			return nil
		}
		replay := map[string]interface{}{"memproxy_args": args, "mode": mode}
		fail := func(sig, what string) {
			rep.Violations = append(rep.Violations, Violation{What: "real memproxy binary (" + mode + " mode): " + what, Signature: sig, Replay: replay})
		}
		if probe := dial(p); probe == nil {
			select {
			case <-exited:
				fail("memproxy-exited", "the program exited at start-up")
			default:
				// the port was taken by somebody else between choosing it and memproxy's bind
				rep.Distribution["memproxy-binary-probe-skipped"]++
			}
			stop()
			continue
		} else {
			probe.Close()
		}
		key := []byte("shared-key")
		setup := dial(p)
		if setup == nil {
			rep.Distribution["memproxy-binary-probe-skipped"]++
			stop()
			continue
		}
		if out, e := setup.Feed(Command{Kind: "set", Key: key, Flags: 1, Data: []byte("v0"), Opaque: 1}.Encode("bin"), 3*time.Second); e != "eof" || len(out) < 24 || out[6] != 0 || out[7] != 0 {
			fail("memproxy-setup", fmt.Sprintf("a plain set on the main port was not acknowledged (%s, %s)", e, canonN(64, out)))
			stop()
			continue
		}
		setup.Close()
		// hold the main port's `set key vA` at its L1 step: it is then inside its critical section
		arrived, release := make(chan struct{}, 1), make(chan struct{})
		var once sync.Once
		l1.Gate = func(conn int, e *fakemc.Entry) func() {
			if e.Op == "set" && bytes.Equal(e.Value, []byte("vA")) {
				once.Do(func() { arrived <- struct{}{} })
				<-release
			}
			return nil
		}
		a, b := dial(p), dial(bp)
		if a == nil || b == nil {
			rep.Distribution["memproxy-binary-probe-skipped"]++
			close(release)
			stop()
			continue
		}
		type res struct {
			out []byte
			e   string
		}
		ra, rb := make(chan res, 1), make(chan res, 1)
		go func() {
			out, e := a.Feed(Command{Kind: "set", Key: key, Flags: 2, Data: []byte("vA"), Opaque: 2}.Encode("bin"), 8*time.Second)
			ra <- res{out, e}
		}()
		select {
		case <-arrived:
		case <-time.After(3 * time.Second):
			fail("memproxy-no-l1-step", "the main port's set never reached L1")
			close(release)
			stop()
			continue
		}
		go func() {
			out, e := b.Feed(Command{Kind: "delete", Key: key, Opaque: 3}.Encode("bin"), 8*time.Second)
			rb <- res{out, e}
		}()
		rep.Evaluations++
		rep.Distribution["memproxy-binary-probe"]++
		select {
		case r := <-rb:
			fail("memproxy-ports-do-not-exclude", fmt.Sprintf("a delete on the batch port was answered (%s) while a set of the same key was inside its critical section on the main port: the two ports do not share their key locks", canonN(64, r.out)))
			close(release)
			<-ra
		case <-time.After(400 * time.Millisecond):
			close(release)
			r1 := <-ra
			r2 := <-rb
			if r1.e != "eof" || r2.e != "eof" {
				fail("memproxy-unanswered", fmt.Sprintf("after the set was let go: set ended %s, delete ended %s", r1.e, r2.e))
			} else {
				// the delete ran after the set: the key is gone from both tiers
				if _, ok := l1.Lookup(string(key)); ok {
					fail("memproxy-l1-stale", "L1 still holds the key after set; delete")
				}
				if _, ok := l2.Lookup(string(key)); ok {
					fail("memproxy-l2-stale", "L2 still holds the key after set; delete")
				}
				rep.Validated++
			}
		}
		a.Close()
		b.Close()
		stop()
	}
	_ = os.Remove
}

package main

import (
	"bytes"
	"encoding/binary"
	"fmt"
	"math/rand"
	"strconv"
	"strings"
	"time"
)

// ---------------------------------------------------------------------------
// an independent strict decoder of what rend writes to clients

type binFrame struct {
	Opcode uint8
	Status uint16
	Opaque uint32
	Extras []byte
	Key    []byte
	Value  []byte
}

func decodeBinStrict(b []byte) ([]binFrame, error) {
	var out []binFrame
	for len(b) > 0 {
		if len(b) < 24 {
			return out, fmt.Errorf("truncated header (%d bytes)", len(b))
		}
		if b[0] != 0x81 {
			return out, fmt.Errorf("bad magic %#x", b[0])
		}
		kl := int(binary.BigEndian.Uint16(b[2:4]))
		el := int(b[4])
		tot := int(binary.BigEndian.Uint32(b[8:12]))
		if b[5] != 0 {
			return out, fmt.Errorf("data type %d", b[5])
		}
		for _, c := range b[16:24] {
			if c != 0 {
				return out, fmt.Errorf("non-zero CAS")
			}
		}
		if tot < kl+el {
			return out, fmt.Errorf("total body %d < key %d + extras %d", tot, kl, el)
		}
		if len(b) < 24+tot {
			return out, fmt.Errorf("truncated body: have %d want %d", len(b)-24, tot)
		}
		body := b[24 : 24+tot]
		out = append(out, binFrame{Opcode: b[1], Status: binary.BigEndian.Uint16(b[6:8]), Opaque: binary.BigEndian.Uint32(b[12:16]),
			Extras: body[:el], Key: body[el : el+kl], Value: body[el+kl:]})
		b = b[24+tot:]
	}
	return out, nil
}

type textItem struct {
	Line  string
	Value bool
	Key   string
	Flags uint32
	Data  []byte
}

func decodeTextStrict(b []byte) ([]textItem, error) {
	var out []textItem
	for len(b) > 0 {
		i := bytes.Index(b, []byte("\r\n"))
		if i < 0 {
			return out, fmt.Errorf("unterminated line %q", b)
		}
		line := string(b[:i])
		b = b[i+2:]
		if strings.HasPrefix(line, "VALUE ") {
			parts := strings.Split(line, " ")
			if len(parts) != 4 {
				return out, fmt.Errorf("bad VALUE line %q", line)
			}
			fl, err1 := strconv.ParseUint(parts[2], 10, 32)
			n, err2 := strconv.ParseUint(parts[3], 10, 32)
			if err1 != nil || err2 != nil {
				return out, fmt.Errorf("bad VALUE numbers %q", line)
			}
			if uint64(len(b)) < n+2 || b[n] != '\r' || b[n+1] != '\n' {
				return out, fmt.Errorf("VALUE block of %d bytes not followed by CRLF", n)
			}
			out = append(out, textItem{Value: true, Key: parts[1], Flags: uint32(fl), Data: b[:n]})
			b = b[n+2:]
			continue
		}
		// the stats reply is "STAT version X\nEND": a bare LF inside, accepted as one unit
		out = append(out, textItem{Line: line})
	}
	return out, nil
}

// replyUnits checks attribution and counts for one pipeline and returns an error text or "".
func checkPipelineReplies(proto string, cmds []Command, out []byte, sentinelLen int) string {
	if len(out) < sentinelLen {
		return "reply shorter than the sentinel's"
	}
	body := out[:len(out)-sentinelLen]
	if proto == "bin" {
		fs, err := decodeBinStrict(body)
		if err != nil {
			return "undecodable binary reply stream: " + err.Error()
		}
		byOpq := map[uint32]int{}
		for _, f := range fs {
			byOpq[f.Opaque]++
		}
		want := 0
		for _, c := range cmds {
			switch c.Kind {
			case "get":
				nonQuiet, hitsMax := 0, 0
				for _, k := range c.Keys {
					hitsMax++
					if !k.Quiet {
						nonQuiet++
						if byOpq[k.Opaque] < 1 {
							return fmt.Sprintf("non-quiet get of key %q (opaque %d) got no reply", k.Key, k.Opaque)
						}
					}
				}
				if c.NoopEnd {
					n := 0
					for _, f := range fs {
						if f.Opcode == 0x0a && f.Opaque == c.NoopOpq {
							n++
						}
					}
					if n != 1 {
						return fmt.Sprintf("quiet batch closed by noop (opaque %d) got %d noop replies", c.NoopOpq, n)
					}
				}
				_ = hitsMax
			case "raw":
			case "stat":
				if byOpq[c.Opaque] != 2 {
					return fmt.Sprintf("stat (opaque %d) got %d frames, want 2", c.Opaque, byOpq[c.Opaque])
				}
			default:
				if !c.Quiet {
					want++
					if byOpq[c.Opaque] < 1 {
						return fmt.Sprintf("%s (opaque %d) got no reply", c.Kind, c.Opaque)
					}
				}
			}
		}
		return ""
	}
	its, err := decodeTextStrict(body)
	if err != nil {
		return "undecodable text reply stream: " + err.Error()
	}
	// text replies come in request order: walk them
	i := 0
	for ci, c := range cmds {
		switch c.Kind {
		case "get":
			for i < len(its) && its[i].Value {
				found := false
				for _, k := range c.Keys {
					if string(k.Key) == its[i].Key {
						found = true
					}
				}
				if !found {
					return fmt.Sprintf("VALUE for key %q in the reply to get #%d that did not ask for it", its[i].Key, ci)
				}
				i++
			}
			if i >= len(its) || its[i].Line != "END" {
				return fmt.Sprintf("get #%d not terminated by END", ci)
			}
			i++
		case "raw":
			// an error line or nothing; skip non-VALUE, non-END lines conservatively
			if i < len(its) && !its[i].Value && (strings.HasPrefix(its[i].Line, "CLIENT_ERROR") || strings.HasPrefix(its[i].Line, "ERROR")) {
				i++
			}
		default:
			if i >= len(its) || its[i].Value {
				return fmt.Sprintf("%s #%d got no reply line", c.Kind, ci)
			}
			if its[i].Line == "END" {
				return fmt.Sprintf("stray END where the reply to %s #%d was expected", c.Kind, ci)
			}
			i++
		}
	}
	if i != len(its) {
		return fmt.Sprintf("%d surplus reply items after the last request (first: %+v)", len(its)-i, its[i])
	}
	return ""
}

// failingCommand prefers requests that are refused: add on existing, replace/append/delete/touch on
// missing, and (text) malformed lines that produce client errors.
func (g *Gen) failingCommand(proto string, now int64) Command {
	c := g.Command(proto, now, 2)
	switch g.r.Intn(10) {
	case 0, 1:
		c.Kind = "add"
		c.Flags, c.Exptime, c.Data = g.Flags(), 0, g.Value(len(c.Key), 1)
	case 2:
		c.Kind, c.Data = "replace", []byte("r")
	case 3:
		c.Kind, c.Data = "append", []byte("a")
	case 4:
		c.Kind = "delete"
	case 5:
		c.Kind = "touch"
	case 6:
		if proto == "text" {
			lines := []string{"bogus cmd\r\n", "set k abc 0 1\r\n", "set k 0 xyz 1\r\n", "set k 0 0 -3\r\n", "get\r\n", "delete\r\n", "touch k\r\n", "touch k zz\r\n", "noop 1\r\n", "\r\n", "incr k 1\r\n"}
			c = Command{Kind: "raw", Raw: []byte(lines[g.r.Intn(len(lines))])}
		}
	}
	return c
}

func init() {
	checks["C08"] = func(rep *Report, tier string, seed int64) {
		rep.Rule = "pipelines of 1..4 requests per write (biased to refused requests: add on existing, replace/append/delete/touch on missing, unknown text commands, bad numeric fields, quiet and non-quiet mixes, stat/noop/version) over text and binary on every stack configuration incl. the locking wrapper and the batch port; reply bytes, backend traces and contents compared with the model; an independent strict decoder checks that the reply stream is a sequence of complete frames, that every non-quiet request is answered (binary: by opaque; text: in order), that each get has exactly one terminator and that nothing is left over; distinct = distinct (configuration, pipeline shape)"
		d := StartDriver()
		defer d.Close()
		per, steps := 10, 14
		if tier == "thorough" {
			per, steps = 50, 25
		}
		distinct := map[string]bool{}
		// (the in-process backend hands its get results over differently — buffered channels
		// closed at once — so the orchestrators' reply loops are exercised over it as well)
		cfgs := append(fullStackConfigs(tier), StackCfg{Orca: "l1only", Locked: "none", Bits: 0, L1: "inmem"}, StackCfg{Orca: "l1l2", Locked: "mr", Bits: 2, L1: "inmem"})
		for ci, cfg := range cfgs {
			for n := 0; n < per; n++ {
				g := &Gen{r: rand.New(rand.NewSource(seed*7907 + int64(ci)*131 + int64(n)))}
				sc := Scenario{ID: fmt.Sprintf("C08-%d-%d", ci, n), Stack: cfg}
				sc.Conns = []ConnCfg{{ID: "t", Port: "main", Proto: "text"}, {ID: "b", Port: "main", Proto: "bin"}}
				if cfg.Orca == "l1l2" {
					sc.Conns = append(sc.Conns, ConnCfg{ID: "B", Port: "batch", Proto: "bin"}, ConnCfg{ID: "T", Port: "batch", Proto: "text"})
				}
				now := time.Now().Unix()
				var pipes [][]Command
				for i := 0; i < steps; i++ {
					c := sc.Conns[g.r.Intn(len(sc.Conns))]
					k := 1 + g.r.Intn(4)
					var cmds []Command
					var raw []byte
					for j := 0; j < k; j++ {
						cmd := g.failingCommand(c.Proto, now)
						if c.Proto == "text" && cmd.Kind == "gat" {
							cmd.Kind = "touch"
						}
						if g.r.Intn(12) == 0 {
							// a text noop's reply is the harness's end-of-exchange sentinel: keep it out of text pipelines
							kinds := []string{"version", "stat", "noop"}
							if c.Proto == "text" {
								kinds = kinds[:2]
							}
							cmd = Command{Kind: kinds[g.r.Intn(len(kinds))], Opaque: g.r.Uint32()}
						}
						cmds = append(cmds, cmd)
						raw = append(raw, cmd.Encode(c.Proto)...)
					}
					pipes = append(pipes, cmds)
					sc.Steps = append(sc.Steps, Step{Kind: "feed", Conn: c.ID, Cmd: Command{Kind: "raw", Raw: raw}})
				}
				out := RunScenarioO(d, sc, 3*time.Second, false)
				if out.Tainted {
					rep.Tainted++
					continue
				}
				rep.Evaluations++
				var kinds []string
				for _, p := range pipes {
					for _, c := range p {
						kinds = append(kinds, c.Kind)
						rep.Distribution["cmd:"+c.Kind]++
					}
				}
				distinct[cfg.String()+"/"+strings.Join(kinds, ",")] = true
				if len(rep.Samples) < 2 {
					var desc [][]string
					for _, p := range pipes {
						var ds []string
						for _, c := range p {
							ds = append(ds, c.Describe())
						}
						desc = append(desc, ds)
					}
					rep.Samples = append(rep.Samples, map[string]interface{}{"stack": cfg.String(), "pipelines": desc})
				}
				for i, ob := range out.Obs {
					if i >= len(pipes) || ob.Ending != "eof" {
						continue
					}
					proto := "text"
					for _, c := range sc.Conns {
						if c.ID == sc.Steps[i].Conn {
							proto = c.Proto
						}
					}
					sl := len(textSentinelReply)
					if proto == "bin" {
						sl = len(binSentinelReply)
					}
					if msg := checkPipelineReplies(proto, pipes[i], ob.Out, sl); msg != "" {
						var ds []string
						for _, c := range pipes[i] {
							ds = append(ds, c.Describe())
						}
						rep.Violations = append(rep.Violations, Violation{What: msg, Signature: "reply-discipline:" + proto,
							Replay: map[string]interface{}{"stack": cfg.String(), "proto": proto, "pipeline": ds, "reply": canonN(2000, ob.Out), "driver_script": out.Script}})
					}
				}
				if out.Div != nil {
					rep.Divergences = append(rep.Divergences, out.Div)
					if enoughDivergences(rep, 3) {
						rep.Distinct = len(distinct)
						return
					}
					continue
				}
				rep.Validated++
			}
		}
		// every reply arrives without the next request: the directed multi-key gets whose keys are
		// spread over the tiers (see C01), each also sent WITHOUT the harness's trailing no-op —
		// bytes that come only once the next request is sent were held back
		for ci, cfg := range fullStackConfigs(tier) {
			if cfg.Orca != "l1l2" {
				continue
			}
			for _, sc := range mixedTierGets(cfg, fmt.Sprintf("C08-%d-mixed", ci)) {
				var out Outcome
				for attempt := 0; attempt < 3; attempt++ {
					out = RunScenarioO(d, sc, 3*time.Second, true)
					if !out.Tainted {
						break
					}
				}
				if out.Tainted {
					rep.Tainted++
					continue
				}
				rep.Evaluations++
				rep.Distribution["unprompted-reply-scenarios"]++
				for _, v := range out.Probed {
					if m, ok := v.Replay.(map[string]interface{}); ok {
						m["scenario"] = describeScenario(sc)
					}
					rep.Violations = append(rep.Violations, v)
				}
				for _, m := range out.Misses {
					rep.Violations = append(rep.Violations, Violation{What: fmt.Sprintf("reply differs from the single-map specification at step %d (%s): %s", m.Step, out.Descs[m.Step], m.Verdict),
						Signature: classifyMiss(sc, m.Step, out.Obs), Replay: map[string]interface{}{"scenario": describeScenario(sc), "step": m.Step}})
				}
				if out.Div != nil {
					rep.Divergences = append(rep.Divergences, out.Div)
					continue
				}
				rep.Validated++
			}
		}
		rep.Distinct = len(distinct)
	}
}

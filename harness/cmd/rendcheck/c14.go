package main

import (
	"fmt"
	"math/rand"
	"net"
	"runtime"
	"strings"
	"sync"
	"time"
)

func init() {
	checks["C14"] = func(rep *Report, tier string, seed int64) {
		rep.Rule = "built with the race detector: for every stack configuration (L1-only / L1/L2, with and without the locking wrapper, pass-through, chunked and batched L1, main and batch port) rounds of 2..64 concurrent client connections (text and binary), each running a seeded random sequence of all commands — including requests that are refused and answered with error bodies — over its PRIVATE key set, all at the same time; afterwards every connection's transcript is judged on its own by the single-map specification started from empty (i.e. against what it would have observed alone) and, for pass-through stacks, compared byte for byte with the Lean model run alone; during every round one more connection issues gets, multi-key gets, sets and get-and-touches that the backends answer with error statuses (its keys share lock stripes with the others'): it must not change what the private connections observe; a data race reported by the detector, a fatal runtime error or a hang fails the check; distinct = distinct (configuration, round, connection)"
		d := StartDriver()
		defer d.Close()
		distinct := map[string]bool{}
		cfgs := fullStackConfigs(tier)
		cfgs = append(cfgs, StackCfg{Orca: "l1only", Locked: "none", Bits: 0, L1: "batched"})
		rounds := []int{2, 8, 32}
		steps := 25
		if tier == "thorough" {
			rounds = []int{2, 3, 8, 16, 32, 64, 64}
			steps = 40
		}
		for ci, cfg := range cfgs {
			for ri, n := range rounds {
				privateRound(rep, d, distinct, cfg, ci, ri, n, steps, seed, tier, troublemaker)
			}
			// one long round on two processors: pooled headers and buffers change hands between
			// the connections' goroutines thousands of times
			privateRound(rep, d, distinct, cfg, ci, len(rounds)|1, 16, 6*steps, seed, tier, troublemaker)
		}
		rep.Distinct = len(distinct)
	}
}

// privateRound: n concurrent connections, each running a seeded random sequence over its PRIVATE key
// set on one stack; afterwards each transcript is judged on its own by the single-map
// specification. `background` (optional) runs other traffic on the same stack for the duration of
// the round — connections that misbehave, are refused, or attack the parser — and must not change
// what the private connections observe.
func privateRound(rep *Report, d *Driver, distinct map[string]bool, cfg StackCfg, ci, ri, n, steps int, seed int64, tier string,
	background func(st *Stack, stop <-chan struct{}, wg *sync.WaitGroup)) {
	crumb(fmt.Sprintf("%s: %d concurrent connections on private keys, %d commands each (round %d)", cfg, n, steps, ri), map[string]interface{}{"seed": seed})
	st := GetStack(cfg)
	if ri%2 == 1 {
		// every other round on one or two processors: the server's goroutines then share per-P
		// pools and run queues, so pooled objects pass from one connection's goroutine to
		// another's all the time (what the race detector needs to see a use after Put)
		old := runtime.GOMAXPROCS(1 + (ri/2)%2)
		defer runtime.GOMAXPROCS(old)
	}

	st.Reset()
	if cfg.L1 == "inmem" {
		resetInmem()
	}
	type conn struct {
		cc    ConnCfg
		cmds  []Command
		outs  [][]byte
		ends  []string
		datas [][]byte
	}
	conns := make([]*conn, n)
	now := time.Now().Unix()
	for i := range conns {
		g := &Gen{r: rand.New(rand.NewSource(seed*7919 + int64(ci)*1000 + int64(ri)*100 + int64(i)))}
		// private keys
		g.keys = [][]byte{[]byte(fmt.Sprintf("c%d-a", i)), []byte(fmt.Sprintf("c%d-b", i)), []byte(fmt.Sprintf("c%d-key", i))}
		proto := []string{"bin", "text"}[i%2]
		port := "main"
		if cfg.Orca == "l1l2" && i%3 == 2 {
			port = "batch"
		}
		c := &conn{cc: ConnCfg{ID: fmt.Sprintf("k%d", i), Port: port, Proto: proto}}
		for s := 0; s < steps; s++ {
			cmd := g.failingCommand(proto, now)
			if cmd.Kind == "raw" {
				continue
			}
			if steps >= 100 && g.r.Intn(2) == 0 {
				// the long round: half the commands are deletes and touches (the paths that talk
				// to the backend through short-lived pooled headers and little else)
				k := g.keys[g.r.Intn(len(g.keys))]
				if g.r.Intn(2) == 0 {
					cmd = Command{Kind: "delete", Key: k, Opaque: uint32(s)}
				} else {
					cmd = Command{Kind: "touch", Key: k, Exptime: uint32(200 + g.r.Intn(50)), Opaque: uint32(s)}
				}
			}
			if proto == "text" && cmd.Kind == "gat" {
				cmd.Kind = "touch"
			}
			if cmd.Exptime >= 1 && cmd.Exptime <= 5 {
				// the connections run against the wall clock for several seconds and each is
				// judged at one fixed time: no lifetimes that can end during the run
				cmd.Exptime += 100
			}
			if cfg.L1 == "batched" && (cmd.Kind == "gat" || cmd.Kind == "touch") {
				cmd.Exptime = 0
			}
			c.cmds = append(c.cmds, cmd)
		}
		conns[i] = c
	}
	stopBg := make(chan struct{})
	var bgWg sync.WaitGroup
	if background != nil {
		background(st, stopBg, &bgWg)
	}
	var wg sync.WaitGroup
	for _, c := range conns {
		wg.Add(1)
		go func(c *conn) {
			defer wg.Done()
			cl := st.Dial(c.cc.Port, c.cc.Proto)
			defer cl.Close()
			for _, cmd := range c.cmds {
				data := cmd.Encode(c.cc.Proto)
				out, ending := cl.Feed(data, 10*time.Second)
				c.datas = append(c.datas, data)
				c.outs = append(c.outs, out)
				c.ends = append(c.ends, ending)
				if ending != "eof" {
					return
				}
			}
		}(c)
	}
	wg.Wait()
	close(stopBg)
	bgWg.Wait()
	st.L1.FailPrefix, st.L2.FailPrefix = "", ""
	// judge every connection on its own
	for i, c := range conns {
		rep.Evaluations++
		tag := fmt.Sprintf("%s/%d/%d", cfg, n, i)
		distinct[tag] = true
		rep.Distribution[fmt.Sprintf("conns:%d", n)]++
		d.Send("case C14-"+tag, 0)
		d.Send(connLine(cfg, c.cc), 0)
		d.Send(fmt.Sprintf("now %d", now), 0)
		ok := true
		for j := range c.outs {
			sl := len(binSentinelReply)
			if c.cc.Proto == "text" {
				sl = len(textSentinelReply)
			}
			if c.ends[j] != "eof" {
				rep.Violations = append(rep.Violations, Violation{What: fmt.Sprintf("%s, %d concurrent connections: connection %d (%s, %s port) ended %q at its command %d (%s)", cfg, n, i, c.cc.Proto, c.cc.Port, c.ends[j], j, c.cmds[j].Describe()),
					Signature: "concurrent-" + c.ends[j], Replay: map[string]interface{}{"stack": cfg.String(), "connections": n, "connection": i, "command": c.cmds[j].Describe(), "seed": seed}})
				ok = false
				break
			}
			body := c.outs[j][:len(c.outs[j])-sl]
			v := d.Send(fmt.Sprintf("oracle %s %s %s", c.cc.ID, hx(c.datas[j]), hx(body)), 1)
			if !strings.HasPrefix(v[0], "oracle ok") && !strings.HasPrefix(v[0], "oracle skip") {
				var hist []string
				for _, cm := range c.cmds[:j+1] {
					hist = append(hist, cm.Describe())
				}
				rep.Violations = append(rep.Violations, Violation{What: fmt.Sprintf("%s, %d concurrent connections on private keys: connection %d (%s, %s port) got a reply to its command %d (%s) that it would not get alone: %s", cfg, n, i, c.cc.Proto, c.cc.Port, j, c.cmds[j].Describe(), v[0]),
					Signature: "interference:" + c.cmds[j].Kind, Replay: map[string]interface{}{"stack": cfg.String(), "connections": n, "connection": i, "history": hist, "reply": canonN(300, body), "seed": seed}})
				ok = false
				break
			}
		}
		if ok {
			rep.Validated++
		}
	}
}

// troublemaker: one more connection whose every request the backends refuse with an error status
// (keys with a prefix the fake backends are told to fail) — gets, multi-key gets, writes — while the
// private connections run. Its keys share lock stripes with theirs; it is not judged itself.
func troublemaker(st *Stack, stop <-chan struct{}, wg *sync.WaitGroup) {
	if st.Cfg.L1 == "inmem" {
		return
	}
	st.L1.FailPrefix, st.L1.FailStatus = "zz-bad-", 0x0084
	st.L2.FailPrefix, st.L2.FailStatus = "zz-bad-", 0x0084
	wg.Add(1)
	go func() {
		defer wg.Done()
		cl := st.Dial("main", "bin")
		defer cl.Close()
		for i := 0; ; i++ {
			select {
			case <-stop:
				return
			default:
			}
			k := []byte(fmt.Sprintf("zz-bad-%d", i%40))
			var c Command
			switch i % 4 {
			case 0:
				c = Command{Kind: "get", Keys: []GetKey{{Key: k, Opaque: uint32(i)}}}
			case 1:
				c = Command{Kind: "get", Keys: []GetKey{{Key: k, Opaque: uint32(i), Quiet: true}, {Key: []byte(fmt.Sprintf("zz-bad-%d", (i+7)%40)), Opaque: uint32(i + 1)}}}
			case 2:
				c = Command{Kind: "set", Key: k, Data: []byte("x"), Opaque: uint32(i)}
			default:
				c = Command{Kind: "gat", Key: k, Exptime: 10, Opaque: uint32(i)}
			}
			if _, e := cl.Feed(c.Encode("bin"), 3*time.Second); e != "eof" {
				cl.Close()
				cl = st.Dial("main", "bin")
			}
			if i > 400 {
				time.Sleep(2 * time.Millisecond)
			}
		}
	}()
}

// attackers: connections that keep sending malformed input (a valid request followed by garbage,
// truncated frames, bad magic bytes, broken text lines), are cut off by the server and come back.
func attackers(st *Stack, stop <-chan struct{}, wg *sync.WaitGroup) {
	junk := [][]byte{
		append(append([]byte{}, binSentinel...), bytes24('A')...),                                   // valid no-op, then a frame with a bad magic byte
		append(append([]byte{}, binSentinel...), 0x80, 0x01, 0x00, 0x05, 0x08, 0, 0, 0, 0, 0, 0, 3), // set header cut short
		append(append([]byte{}, binSentinel...), 0x81, 0x00, 0, 0, 0, 0, 0, 0, 0, 0, 0, 0, 0, 0, 0, 0, 0, 0, 0, 0, 0, 0, 0, 0),
		[]byte("noop\r\nset k 0 0 notanumber\r\n"),
		[]byte("noop\r\nget\r\nbogus command line\r\n\x00\xff\x80"),
		[]byte("noop\r\nset k 0 0 5\r\nab"),
	}
	for a := 0; a < 4; a++ {
		wg.Add(1)
		go func(a int) {
			defer wg.Done()
			for i := 0; ; i++ {
				select {
				case <-stop:
					return
				default:
				}
				c, err := net.Dial("unix", st.MainSock)
				if err != nil {
					return
				}
				c.Write(junk[(a+i)%len(junk)])
				c.SetReadDeadline(time.Now().Add(50 * time.Millisecond))
				buf := make([]byte, 4096)
				for {
					if _, err := c.Read(buf); err != nil {
						break
					}
				}
				c.Close()
			}
		}(a)
	}
}

func bytes24(b byte) []byte {
	out := make([]byte, 24)
	for i := range out {
		out[i] = b
	}
	return out
}

package main

import (
	"fmt"
	"math/rand"
	"strings"
	"sync"
	"time"
)

func init() {
	checks["C14"] = func(rep *Report, tier string, seed int64) {
		rep.Rule = "built with the race detector: for every stack configuration (L1-only / L1/L2, with and without the locking wrapper, pass-through, chunked and batched L1, main and batch port) rounds of 2..64 concurrent client connections (text and binary), each running a seeded random sequence of all commands — including requests that are refused and answered with error bodies — over its PRIVATE key set, all at the same time; afterwards every connection's transcript is judged on its own by the single-map specification started from empty (i.e. against what it would have observed alone) and, for pass-through stacks, compared byte for byte with the Lean model run alone; a data race reported by the detector, a fatal runtime error or a hang fails the check; distinct = distinct (configuration, round, connection)"
		d := StartDriver()
		defer d.Close()
		distinct := map[string]bool{}
		cfgs := fullStackConfigs(tier)
		cfgs = append(cfgs, StackCfg{Orca: "l1only", Locked: "none", Bits: 0, L1: "batched"})
		rounds := []int{2, 8, 32}
		steps := 25
		if tier == "thorough" {
			rounds = []int{2, 3, 8, 16, 32, 64, 64}
			steps = 40
		}
		for ci, cfg := range cfgs {
			st := GetStack(cfg)
			for ri, n := range rounds {
				st.Reset()
				if cfg.L1 == "inmem" {
					resetInmem()
				}
				type conn struct {
					cc    ConnCfg
					cmds  []Command
					outs  [][]byte
					ends  []string
					datas [][]byte
				}
				conns := make([]*conn, n)
				now := time.Now().Unix()
				for i := range conns {
					g := &Gen{r: rand.New(rand.NewSource(seed*7919 + int64(ci)*1000 + int64(ri)*100 + int64(i)))}
					// private keys
					g.keys = [][]byte{[]byte(fmt.Sprintf("c%d-a", i)), []byte(fmt.Sprintf("c%d-b", i)), []byte(fmt.Sprintf("c%d-key", i))}
					proto := []string{"bin", "text"}[i%2]
					port := "main"
					if cfg.Orca == "l1l2" && i%3 == 2 {
						port = "batch"
					}
					c := &conn{cc: ConnCfg{ID: fmt.Sprintf("k%d", i), Port: port, Proto: proto}}
					for s := 0; s < steps; s++ {
						cmd := g.failingCommand(proto, now)
						if cmd.Kind == "raw" {
							continue
						}
						if proto == "text" && cmd.Kind == "gat" {
							cmd.Kind = "touch"
						}
						if cmd.Exptime >= 1 && cmd.Exptime <= 5 {
							// the connections run against the wall clock for several seconds and each is
							// judged at one fixed time: no lifetimes that can end during the run
							cmd.Exptime += 100
						}
						if cfg.L1 == "batched" && (cmd.Kind == "gat" || cmd.Kind == "touch") {
							cmd.Exptime = 0
						}
						c.cmds = append(c.cmds, cmd)
					}
					conns[i] = c
				}
				var wg sync.WaitGroup
				for _, c := range conns {
					wg.Add(1)
					go func(c *conn) {
						defer wg.Done()
						cl := st.Dial(c.cc.Port, c.cc.Proto)
						defer cl.Close()
						for _, cmd := range c.cmds {
							data := cmd.Encode(c.cc.Proto)
							out, ending := cl.Feed(data, 10*time.Second)
							c.datas = append(c.datas, data)
							c.outs = append(c.outs, out)
							c.ends = append(c.ends, ending)
							if ending != "eof" {
								return
							}
						}
					}(c)
				}
				wg.Wait()
				// judge every connection on its own
				for i, c := range conns {
					rep.Evaluations++
					tag := fmt.Sprintf("%s/%d/%d", cfg, n, i)
					distinct[tag] = true
					rep.Distribution[fmt.Sprintf("conns:%d", n)]++
					d.Send("case C14-"+tag, 0)
					d.Send(connLine(cfg, c.cc), 0)
					d.Send(fmt.Sprintf("now %d", now), 0)
					ok := true
					for j := range c.outs {
						sl := len(binSentinelReply)
						if c.cc.Proto == "text" {
							sl = len(textSentinelReply)
						}
						if c.ends[j] != "eof" {
							rep.Violations = append(rep.Violations, Violation{What: fmt.Sprintf("%s, %d concurrent connections: connection %d (%s, %s port) ended %q at its command %d (%s)", cfg, n, i, c.cc.Proto, c.cc.Port, c.ends[j], j, c.cmds[j].Describe()),
								Signature: "concurrent-" + c.ends[j], Replay: map[string]interface{}{"stack": cfg.String(), "connections": n, "connection": i, "command": c.cmds[j].Describe(), "seed": seed}})
							ok = false
							break
						}
						body := c.outs[j][:len(c.outs[j])-sl]
						v := d.Send(fmt.Sprintf("oracle %s %s %s", c.cc.ID, hx(c.datas[j]), hx(body)), 1)
						if !strings.HasPrefix(v[0], "oracle ok") && !strings.HasPrefix(v[0], "oracle skip") {
							var hist []string
							for _, cm := range c.cmds[:j+1] {
								hist = append(hist, cm.Describe())
							}
							rep.Violations = append(rep.Violations, Violation{What: fmt.Sprintf("%s, %d concurrent connections on private keys: connection %d (%s, %s port) got a reply to its command %d (%s) that it would not get alone: %s", cfg, n, i, c.cc.Proto, c.cc.Port, j, c.cmds[j].Describe(), v[0]),
								Signature: "interference:" + c.cmds[j].Kind, Replay: map[string]interface{}{"stack": cfg.String(), "connections": n, "connection": i, "history": hist, "reply": canonN(300, body), "seed": seed}})
							ok = false
							break
						}
					}
					if ok {
						rep.Validated++
					}
				}
			}
		}
		rep.Distinct = len(distinct)
	}
}

package main

// Full-stack correspondence: client bytes in, reply bytes out, every backend
// request on both tiers and both backend contents, compared with the Lean model
// after every step.

import (
	"encoding/binary"
	"fmt"
	"math/rand"
	"net"
	"os"
	"strings"
	"time"

	"verif/harness/fakemc"
)

// ---------------------------------------------------------------------------
// client commands and their wire encodings (written independently of rend's code)

type GetKey struct {
	Key    []byte
	Opaque uint32
	Quiet  bool
}

type Command struct {
	Kind    string // set add replace append prepend get gat delete touch noop version stat quit raw
	Key     []byte
	Flags   uint32
	Exptime uint32
	Data    []byte
	Opaque  uint32
	Quiet   bool
	Keys    []GetKey // get
	NoopEnd bool     // binary get batch closed by a noop
	NoopOpq uint32
	Raw     []byte // raw: bytes sent as they are
}

func binHeader(op uint8, keyLen, extLen, total int, opaque uint32) []byte {
	b := make([]byte, 24)
	b[0] = 0x80
	b[1] = op
	binary.BigEndian.PutUint16(b[2:4], uint16(keyLen))
	b[4] = uint8(extLen)
	binary.BigEndian.PutUint32(b[8:12], uint32(total))
	binary.BigEndian.PutUint32(b[12:16], opaque)
	return b
}

func u32(v uint32) []byte {
	b := make([]byte, 4)
	binary.BigEndian.PutUint32(b, v)
	return b
}

var binStoreOp = map[string][2]uint8{"set": {0x01, 0x11}, "add": {0x02, 0x12}, "replace": {0x03, 0x13}, "append": {0x0e, 0x19}, "prepend": {0x0f, 0x1a}}

func (c Command) Bin() []byte {
	switch c.Kind {
	case "set", "add", "replace":
		op := binStoreOp[c.Kind][0]
		if c.Quiet {
			op = binStoreOp[c.Kind][1]
		}
		b := binHeader(op, len(c.Key), 8, 8+len(c.Key)+len(c.Data), c.Opaque)
		b = append(b, u32(c.Flags)...)
		b = append(b, u32(c.Exptime)...)
		b = append(b, c.Key...)
		return append(b, c.Data...)
	case "append", "prepend":
		op := binStoreOp[c.Kind][0]
		if c.Quiet {
			op = binStoreOp[c.Kind][1]
		}
		b := binHeader(op, len(c.Key), 0, len(c.Key)+len(c.Data), c.Opaque)
		b = append(b, c.Key...)
		return append(b, c.Data...)
	case "get", "gete":
		var b []byte
		for i, k := range c.Keys {
			op := uint8(0x00)
			if k.Quiet {
				op = 0x09
			}
			if c.Kind == "gete" {
				// get-with-expiry: GetE 0x40 / GetEQ 0x41
				op += 0x40
				if k.Quiet {
					op = 0x41
				}
			}
			_ = i
			b = append(b, binHeader(op, len(k.Key), 0, len(k.Key), k.Opaque)...)
			b = append(b, k.Key...)
		}
		if c.NoopEnd {
			b = append(b, binHeader(0x0a, 0, 0, 0, c.NoopOpq)...)
		}
		return b
	case "gat":
		b := binHeader(0x1d, len(c.Key), 4, 4+len(c.Key), c.Opaque)
		b = append(b, u32(c.Exptime)...)
		return append(b, c.Key...)
	case "touch":
		b := binHeader(0x1c, len(c.Key), 4, 4+len(c.Key), c.Opaque)
		b = append(b, u32(c.Exptime)...)
		return append(b, c.Key...)
	case "delete":
		b := binHeader(0x04, len(c.Key), 0, len(c.Key), c.Opaque)
		return append(b, c.Key...)
	case "noop":
		return binHeader(0x0a, 0, 0, 0, c.Opaque)
	case "version":
		return binHeader(0x0b, 0, 0, 0, c.Opaque)
	case "stat":
		return binHeader(0x10, 0, 0, 0, c.Opaque)
	case "quit":
		if c.Quiet {
			return binHeader(0x17, 0, 0, 0, c.Opaque)
		}
		return binHeader(0x07, 0, 0, 0, c.Opaque)
	case "raw":
		return c.Raw
	}
	panic("bin: unknown command kind " + c.Kind)
}

func (c Command) Text() []byte {
	switch c.Kind {
	case "set", "add", "replace", "append", "prepend":
		return append([]byte(fmt.Sprintf("%s %s %d %d %d\r\n", c.Kind, c.Key, c.Flags, c.Exptime, len(c.Data))), append(append([]byte{}, c.Data...), '\r', '\n')...)
	case "get":
		ks := make([]string, len(c.Keys))
		for i, k := range c.Keys {
			ks[i] = string(k.Key)
		}
		return []byte("get " + strings.Join(ks, " ") + "\r\n")
	case "touch":
		return []byte(fmt.Sprintf("touch %s %d\r\n", c.Key, c.Exptime))
	case "delete":
		return []byte(fmt.Sprintf("delete %s\r\n", c.Key))
	case "noop":
		return []byte("noop\r\n")
	case "version":
		return []byte("version\r\n")
	case "stat":
		return []byte("stats\r\n")
	case "quit":
		return []byte("quit\r\n")
	case "raw":
		return c.Raw
	}
	panic("text: unknown command kind " + c.Kind)
}

func (c Command) Encode(proto string) []byte {
	if proto == "text" {
		return c.Text()
	}
	return c.Bin()
}

func (c Command) Describe() string {
	switch c.Kind {
	case "get", "gete":
		var ks []string
		for _, k := range c.Keys {
			q := ""
			if k.Quiet {
				q = "q"
			}
			ks = append(ks, fmt.Sprintf("%s%s", k.Key, q))
		}
		e := ""
		if c.NoopEnd {
			e = "+noop"
		}
		return c.Kind + " " + strings.Join(ks, ",") + e
	case "raw":
		return "raw " + canon(c.Raw)
	case "set", "add", "replace", "append", "prepend":
		return fmt.Sprintf("%s %s f=%d ttl=%d len=%d", c.Kind, c.Key, c.Flags, c.Exptime, len(c.Data))
	}
	return fmt.Sprintf("%s %s ttl=%d", c.Kind, c.Key, c.Exptime)
}

// ---------------------------------------------------------------------------
// scenario

type ConnCfg struct {
	ID    string
	Port  string // main | batch
	Proto string // bin | text
}

type Step struct {
	Kind string // feed | evict | drop | advance | fault (applies to the next feed)
	// Prompt: the command is sent WITHOUT the harness's trailing no-op first; whatever the server
	// answers must arrive without further input (nothing may be held back until the next request)
	Prompt bool
	Fault  *FaultSpec
	Conn   string
	Cmd    Command
	Tier   string // evict/drop
	Key    []byte
	Secs   int64
}

// FaultSpec is a backend fault planned for the next fed command.
type FaultSpec struct {
	Tier   string // L1 | L2
	Index  int    // 0-based request index on that tier within the command
	Kind   string // status | cut-before | cut-after
	Status uint16
}

func (f FaultSpec) String() string {
	if f.Kind == "status" {
		return fmt.Sprintf("%s %d status:%d", f.Tier, f.Index, f.Status)
	}
	return fmt.Sprintf("%s %d %s", f.Tier, f.Index, f.Kind)
}

type Scenario struct {
	ID    string
	Stack StackCfg
	Conns []ConnCfg
	Steps []Step
	// Probe, if set, inspects the implementation's backends (and may query the driver) after
	// every fed command, i.e. at quiescence; what it returns is reported as violations.
	Probe func(sc Scenario, i int, st *Stack, d *Driver, ob StepObs) []Violation
}

type Divergence struct {
	Scenario string   `json:"scenario"`
	Step     int      `json:"step"`
	What     string   `json:"what"`
	Impl     string   `json:"impl"`
	Model    string   `json:"model"`
	Script   []string `json:"script"`
	Desc     []string `json:"steps"`
}

func traceLine(log []fakemc.Entry) string {
	var parts []string
	for _, e := range log {
		resp := e.Resp
		if strings.HasPrefix(resp, "hit:") {
			resp = resp + ":" + canon(e.RespVal)
		}
		if resp == "" {
			continue // cut before the request was performed: the model logs nothing either
		}
		parts = append(parts, fmt.Sprintf("%s,%s,%d,%d,%s,%s", e.Op, canon(e.Key), e.Flags, e.Exptime, canon(e.Value), resp))
	}
	return strings.Join(parts, " ")
}

func isMetaSet(e fakemc.Entry) bool {
	return (e.Op == "set" || e.Op == "add" || e.Op == "replace") && strings.HasSuffix(string(e.Key), "-meta") && len(e.Value) == 40
}

func connLine(sc StackCfg, c ConnCfg) string {
	orca := sc.Orca
	if c.Port == "batch" {
		orca = "l1l2batch"
	}
	locked := "1"
	if sc.Locked == "none" {
		locked = "0"
	}
	return fmt.Sprintf("conn id=%s proto=%s orca=%s locked=%s bits=%d l1=%s", c.ID, c.Proto, orca, locked, sc.Bits, sc.L1)
}

type StepObs struct {
	Out    []byte
	Ending string
	L1, L2 []fakemc.Entry
	Locks  []string
}

// OracleMiss is a step at which the implementation's reply differs from the specification's.
type OracleMiss struct {
	Step    int
	Verdict string
}

// Outcome of one scenario.
type Outcome struct {
	Div     *Divergence
	Tainted bool
	Obs     []StepObs
	Misses  []OracleMiss
	Probed  []Violation
	Script  []string
	Descs   []string
}

// RunScenario executes sc on the implementation and on the model and returns the first divergence
// (nil if none), whether the case was tainted by a clock tick, and the per-step observations.
func RunScenario(d *Driver, sc Scenario, timeout time.Duration) (*Divergence, bool, []StepObs) {
	o := RunScenarioO(d, sc, timeout, false)
	return o.Div, o.Tainted, o.Obs
}

// RunScenarioO is RunScenario with the specification oracle evaluated on every fed command
// (one command per feed).
func RunScenarioO(d *Driver, sc Scenario, timeout time.Duration, oracle bool) (res Outcome) {
	div, tainted, obs := runScenario(d, sc, timeout, oracle, &res)
	res.Div, res.Tainted, res.Obs = div, tainted, obs
	res.Script = append([]string{}, d.Script...)
	return
}

func runScenario(d *Driver, sc Scenario, timeout time.Duration, oracle bool, res *Outcome) (*Divergence, bool, []StepObs) {
	crumb("scenario "+sc.ID, describeScenario(sc))
	// a scenario in which nothing has a lifetime reads the same at every second: a clock tick
	// during one of its steps does not taint it
	clockFree := sc.Stack.L1 != "chunked" // (the chunking handler stamps the time into the metadata it writes)
	for _, s := range sc.Steps {
		if s.Kind != "feed" && s.Kind != "evict" {
			clockFree = false
		}
		if s.Kind == "feed" && (s.Cmd.Exptime != 0 || s.Cmd.Kind == "touch" || s.Cmd.Kind == "gat" || s.Cmd.Kind == "gete" || s.Cmd.Kind == "raw") {
			clockFree = false
		}
	}
	st := GetStack(sc.Stack)
	st.Reset()
	if sc.Stack.L1 == "inmem" {
		resetInmem()
	}
	clients := map[string]*Client{}
	protos := map[string]string{}
	d.Send("case "+sc.ID, 0)
	for _, c := range sc.Conns {
		clients[c.ID] = st.Dial(c.Port, c.Proto)
		protos[c.ID] = c.Proto
		d.Send(connLine(sc.Stack, c), 0)
	}
	defer func() {
		for _, c := range clients {
			c.Close()
		}
	}()
	var descs []string
	var obs []StepObs
	armed := false
	var firstDiv *Divergence // once set, the model is no longer consulted: the rest of the scenario
	// is run on the implementation with the specification oracle and the probe only, to look for a
	// concrete input on which the property itself fails
	diverge := func(i int, what, impl, model string) *Divergence {
		return &Divergence{Scenario: sc.ID, Step: i, What: what, Impl: impl, Model: model, Script: append([]string{}, d.Script...), Desc: descs}
	}
	for i, s := range sc.Steps {
		switch s.Kind {
		case "sleep":
			// real time passes (for handlers that read the proxy's own clock)
			time.Sleep(time.Duration(s.Secs)*time.Second + 50*time.Millisecond)
			descs = append(descs, fmt.Sprintf("sleep %d", s.Secs))
			obs = append(obs, StepObs{})
			continue
		case "advance":
			st.L1.Offset += s.Secs
			st.L2.Offset += s.Secs
			descs = append(descs, fmt.Sprintf("advance %d", s.Secs))
			obs = append(obs, StepObs{})
			continue
		case "fault":
			f := st.L1
			if s.Fault.Tier == "L2" {
				f = st.L2
			}
			fk := map[string]fakemc.FaultKind{"status": fakemc.FaultStatus, "cut-before": fakemc.FaultCutBefore, "cut-after": fakemc.FaultCutAfter}[s.Fault.Kind]
			f.Arm(&fakemc.Fault{Index: s.Fault.Index, Kind: fk, Status: s.Fault.Status})
			d.Send("fault "+s.Fault.String(), 0)
			armed = true
			descs = append(descs, "fault "+s.Fault.String())
			obs = append(obs, StepObs{})
			continue
		case "evict", "drop":
			f := st.L1
			if s.Tier == "L2" {
				f = st.L2
			}
			if sc.Stack.L1 == "inmem" && s.Tier != "L2" {
				dropInmem(string(s.Key))
			} else {
				f.Drop(string(s.Key))
			}
			d.Send(fmt.Sprintf("evict %s %s", s.Tier, hx(s.Key)), 0)
			descs = append(descs, fmt.Sprintf("%s %s %s", s.Kind, s.Tier, s.Key))
			obs = append(obs, StepObs{})
			continue
		}
		cl := clients[s.Conn]
		if cl.dead {
			// the server closed this connection earlier (fault, quit, fatal parse error): a
			// client would reconnect; the model keeps no per-connection state between feeds
			for _, c := range sc.Conns {
				if c.ID == s.Conn {
					cl = st.Dial(c.Port, c.Proto)
					clients[s.Conn] = cl
				}
			}
		}
		st.TakeLockLog()
		data := s.Cmd.Encode(protos[s.Conn])
		descs = append(descs, s.Conn+": "+s.Cmd.Describe())
		now0 := st.L1.Now()
		tFeed := time.Now()
		var out []byte
		var ending string
		if s.Prompt {
			sent, sentReply := cl.Sentinel()
			cl.c.Write(data)
			before := readUntilIdle(cl.c, 300*time.Millisecond, timeout)
			rest, e := cl.FeedRaw(sent, sentReply, timeout)
			out, ending = append(before, rest...), e
			if e == "eof" && len(rest) > len(sentReply) {
				res.Probed = append(res.Probed, Violation{What: fmt.Sprintf("step %d (%s): %d bytes of the reply were held back until the next request arrived (they were not sent when the command had been answered)", i, s.Cmd.Describe(), len(rest)-len(sentReply)),
					Signature: "reply-held-back:" + s.Cmd.Kind, Replay: map[string]interface{}{"step": i, "arrived_at_once": canonN(200, before), "arrived_with_the_next_request": canonN(200, rest)}})
			}
		} else {
			out, ending = cl.Feed(data, timeout)
		}
		if os.Getenv("VERIF_DEBUG_TIMING") != "" {
			fmt.Fprintf(os.Stderr, "%s step %d %s: %v (%s)\n", sc.ID, i, s.Cmd.Describe(), time.Since(tFeed), ending)
		}
		now1 := st.L1.Now()
		if ending != "eof" {
			// let the server side of a closing connection finish (deferred unlocks, backend closes)
			time.Sleep(20 * time.Millisecond)
		}
		l1, l2 := st.L1.TakeLog(), st.L2.TakeLog()
		lockLog := st.TakeLockLog()
		obs = append(obs, StepObs{Out: out, Ending: ending, L1: l1, L2: l2, Locks: lockLog})
		if armed {
			st.L1.Arm(nil)
			st.L2.Arm(nil)
		}
		if now0 != now1 && ending != "hang" && !clockFree {
			// (a client left waiting for the whole timeout is a finding, not a clock artefact)
			return nil, true, obs
		}
		// nondeterministic choices of the implementation, as observed
		// (a touch rewrites the metadata with the token it has just read: that is not a draw)
		var toks []string
		lastRead := map[string]string{}
		for _, e := range l1 {
			if e.Op == "get" && strings.HasSuffix(string(e.Key), "-meta") && len(e.RespVal) == 40 {
				lastRead[string(e.Key)] = string(e.RespVal[24:40])
			}
			if isMetaSet(e) {
				if e.Op == "set" && lastRead[string(e.Key)] == string(e.Value[24:40]) {
					continue
				}
				toks = append(toks, hx(e.Value[24:40]))
			}
		}
		d.Send(fmt.Sprintf("now %d", now0), 0)
		if len(toks) > 0 {
			d.Send("tok "+strings.Join(toks, " "), 0)
		}
		sent, sentReply := cl.Sentinel()
		if oracle && s.Cmd.Kind != "raw" {
			body := out
			if ending == "eof" && len(out) >= len(sentReply) {
				body = out[:len(out)-len(sentReply)]
			}
			v := d.Send(fmt.Sprintf("oracle %s %s %s", s.Conn, hx(data), hx(body)), 1)
			if !strings.HasPrefix(v[0], "oracle ok") && !strings.HasPrefix(v[0], "oracle skip") {
				res.Misses = append(res.Misses, OracleMiss{Step: i, Verdict: v[0]})
			}
		}
		// the property's own probe of the implementation runs before the comparison with the model,
		// so that a step on which model and implementation diverge still yields a concrete finding
		if sc.Probe != nil {
			res.Probed = append(res.Probed, sc.Probe(sc, i, st, d, obs[i])...)
		}
		res.Descs = descs
		if firstDiv != nil {
			if armed {
				d.Send("nofault", 0)
				armed = false
			}
			continue
		}
		// (the probe may have moved the model's clock to a later second)
		d.Send(fmt.Sprintf("now %d", now0), 0)
		r4 := d.Send(fmt.Sprintf("feed %s %s", s.Conn, hx(append(append([]byte{}, data...), sent...))), 4)
		implOut := fmt.Sprintf("out %s %s", canonN(256, out), ending)
		if r4[0] != implOut {
			firstDiv = diverge(i, "reply", implOut, r4[0])
			continue
		}
		// (the in-process backend has no request stream to observe)
		if t := "trace1 " + traceLine(l1); sc.Stack.L1 != "inmem" && strings.TrimSpace(t) != strings.TrimSpace(r4[1]) {
			firstDiv = diverge(i, "L1 requests", t, r4[1])
			continue
		}
		if t := "trace2 " + traceLine(l2); strings.TrimSpace(t) != strings.TrimSpace(r4[2]) && !abortedReadsPrefix(ending, t, r4[2]) {
			firstDiv = diverge(i, "L2 requests", t, r4[2])
			continue
		}
		if sc.Stack.Locked != "none" {
			if t := "locks " + strings.Join(lockLog, " "); strings.TrimSpace(t) != strings.TrimSpace(r4[3]) {
				firstDiv = diverge(i, "lock events", t, r4[3])
				continue
			}
		}
		if armed {
			d.Send("nofault", 0)
			armed = false
		}
		// backend contents (sampled within one wall-clock second)
		for _, tf := range []struct {
			name string
			f    *fakemc.Server
			log  []fakemc.Entry
		}{{"L1", st.L1, l1}, {"L2", st.L2, l2}} {
			keyset := map[string]bool{}
			for _, k := range tf.f.Keys() {
				keyset[k] = true
			}
			for _, e := range tf.log {
				if len(e.Key) > 0 {
					keyset[string(e.Key)] = true
				}
			}
			if len(keyset) == 0 {
				continue
			}
			var keys []string
			for k := range keyset {
				keys = append(keys, k)
			}
			sortStrings(keys)
			var hk, parts []string
			var nowD int64
			for {
				hk, parts = nil, nil
				nowD = tf.f.Now()
				for _, k := range keys {
					hk = append(hk, hx([]byte(k)))
					if it, ok := tf.f.Lookup(k); ok {
						parts = append(parts, fmt.Sprintf("%s=%d,%d,%s", hx([]byte(k)), it.Flags, it.Deadline, canon(it.Value)))
					} else {
						parts = append(parts, hx([]byte(k))+"=-")
					}
				}
				if tf.f.Now() == nowD {
					break
				}
			}
			d.Send(fmt.Sprintf("now %d", nowD), 0)
			got := d.Send(fmt.Sprintf("dump %s %s", tf.name, strings.Join(hk, " ")), 1)
			want := fmt.Sprintf("dump %s %s", tf.name, strings.Join(parts, " "))
			if got[0] != want {
				firstDiv = diverge(i, tf.name+" contents", want, got[0])
				break
			}
		}

	}
	return firstDiv, false, obs
}

// abortedReadsPrefix: the handler's Get/GetE runs in its own goroutine and streams its answers to
// the orchestrator; when the orchestrator dies in the middle (a panic closes the connection) that
// goroutine is cut off wherever it happens to be, so the requests the backend saw may be a prefix
// of the model's (which performs the whole read first). Only reads may be missing.
func abortedReadsPrefix(ending, impl, model string) bool {
	if ending == "eof" {
		return false
	}
	a, b := strings.Fields(impl), strings.Fields(model)
	if len(a) > len(b) {
		return false
	}
	for i := range a {
		if a[i] != b[i] {
			return false
		}
	}
	for _, e := range b[len(a):] {
		if !strings.HasPrefix(e, "get") {
			return false
		}
	}
	return true
}

// readUntilIdle reads what arrives until nothing has arrived for `idle` (or `max` has passed).
func readUntilIdle(c net.Conn, idle, max time.Duration) []byte {
	var out []byte
	buf := make([]byte, 65536)
	end := time.Now().Add(max)
	for time.Now().Before(end) {
		// (patience for the first byte: a loaded machine may take a while to answer at all; once
		// the answer has started, `idle` without a byte means the server has sent what it will)
		wait := idle
		if len(out) == 0 {
			wait = time.Until(end)
		}
		c.SetReadDeadline(time.Now().Add(wait))
		n, err := c.Read(buf)
		out = append(out, buf[:n]...)
		if err != nil {
			break
		}
	}
	c.SetReadDeadline(time.Time{})
	return out
}

func sortStrings(xs []string) {
	for i := 1; i < len(xs); i++ {
		for j := i; j > 0 && xs[j] < xs[j-1]; j-- {
			xs[j], xs[j-1] = xs[j-1], xs[j]
		}
	}
}

// ---------------------------------------------------------------------------
// generators

type Gen struct {
	r    *rand.Rand
	keys [][]byte // overrides the default key alphabet
	getE bool     // also generate get-with-expiry (binary connections)
}

var keyAlphabet = []string{"a", "b", "foo", "k1", "key-7", "zz"}

// TTL alphabet of C09: 0, small, large relative, 30-day boundary, absolute future, absolute past.
func (g *Gen) TTL(now int64) uint32 {
	switch g.r.Intn(11) {
	case 10:
		// dates beyond 2^31 (year 2038 and later) up to the top of the 32-bit field
		return []uint32{2147483647, 2147483648, 3000000000, 4294967294, 4294967295}[g.r.Intn(5)]
	case 9:
		return uint32(now) + thirtyDays + 1000 + uint32(g.r.Intn(100000)) // absolute, more than 30 days ahead
	case 0, 1:
		return 0
	case 2:
		return 1 + uint32(g.r.Intn(5))
	case 3:
		return 100 + uint32(g.r.Intn(100000))
	case 4:
		return 2592000 - 1
	case 5:
		return 2592000
	case 6:
		return 2592000 + 1 // absolute, 1970: in the past
	case 7:
		return uint32(now) + 50 + uint32(g.r.Intn(100000))
	default:
		return uint32(now) - 10 - uint32(g.r.Intn(1000))
	}
}

func (g *Gen) Key() []byte {
	if g.keys != nil {
		return g.keys[g.r.Intn(len(g.keys))]
	}
	return []byte(keyAlphabet[g.r.Intn(len(keyAlphabet))])
}

func (g *Gen) Flags() uint32 {
	switch g.r.Intn(4) {
	case 0:
		return 0
	case 1:
		return 0xffffffff
	default:
		return g.r.Uint32()
	}
}

// Value lengths dense around chunk boundaries (payload = 1097 - keylen for the chunked handler).
func (g *Gen) Value(keyLen int, maxChunks int) []byte {
	p := 1184 - 71 - keyLen - 16
	var n int
	switch g.r.Intn(9) {
	case 0:
		n = 0
	case 1:
		n = 1 + g.r.Intn(8)
	case 2:
		n = g.r.Intn(200)
	case 3:
		// around the sizes of the I/O buffers between client, proxy and backends (a value that,
		// with its headers, just fits / just overflows a 4 KiB bufio buffer or a 64 KiB length
		// field), and a few sizes in between
		switch g.r.Intn(6) {
		case 0, 1:
			n = 4096 - g.r.Intn(120) + g.r.Intn(8)
		case 2:
			n = 8192 - g.r.Intn(120) + g.r.Intn(8)
		case 3:
			n = 65536 - g.r.Intn(4) + g.r.Intn(40)
		default:
			n = 4000 + g.r.Intn(16000)
		}
	default:
		k := 1 + g.r.Intn(maxChunks)
		n = k*p + g.r.Intn(3) - 1
	}
	b := make([]byte, n)
	for i := range b {
		b[i] = byte(33 + g.r.Intn(90))
	}
	// make every value distinguishable and include awkward bytes
	if n > 4 {
		b[g.r.Intn(n)] = '\r'
		b[g.r.Intn(n)] = '\n'
		b[g.r.Intn(n)] = 0x80
		b[g.r.Intn(n)] = 0
	}
	return b
}

func (g *Gen) Command(proto string, now int64, maxChunks int) Command {
	key := g.Key()
	c := Command{Key: key, Opaque: g.r.Uint32()}
	kinds := []string{"set", "set", "set", "add", "replace", "append", "prepend", "get", "get", "get", "get", "delete", "touch", "gat", "gat"}
	if g.getE {
		kinds = append(kinds, "gete")
	}
	if proto == "text" {
		kinds = []string{"set", "set", "set", "add", "replace", "append", "prepend", "get", "get", "get", "get", "delete", "touch", "touch"}
	}
	c.Kind = kinds[g.r.Intn(len(kinds))]
	switch c.Kind {
	case "set", "add", "replace":
		c.Flags, c.Exptime, c.Data = g.Flags(), g.TTL(now), g.Value(len(key), maxChunks)
	case "append", "prepend":
		c.Data = g.Value(len(key), 1)
		if len(c.Data) > 300 {
			c.Data = c.Data[:g.r.Intn(300)]
		}
	case "touch", "gat":
		c.Exptime = g.TTL(now)
	case "get", "gete":
		n := 1 + g.r.Intn(4)
		if g.r.Intn(3) == 0 {
			n = 1
		}
		for i := 0; i < n; i++ {
			gk := GetKey{Key: g.Key(), Opaque: g.r.Uint32()}
			if proto == "bin" {
				gk.Quiet = i < n-1 || g.r.Intn(2) == 0
			}
			c.Keys = append(c.Keys, gk)
		}
		if proto == "bin" {
			last := &c.Keys[len(c.Keys)-1]
			if last.Quiet {
				c.NoopEnd = true
				c.NoopOpq = g.r.Uint32()
			}
		}
	}
	if proto == "bin" && (c.Kind == "set" || c.Kind == "add" || c.Kind == "replace" || c.Kind == "append" || c.Kind == "prepend") && g.r.Intn(6) == 0 {
		c.Quiet = true
	}
	return c
}

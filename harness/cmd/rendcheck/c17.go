package main

import (
	"bytes"
	"fmt"
	"math/rand"
	"sync"
	"time"

	"github.com/netflix/rend/common"
	"github.com/netflix/rend/handlers"
	"github.com/netflix/rend/handlers/inmem"
)

func resetInmem() { inmem.VerifReset() }

func dropInmem(key string) { inmem.VerifDrop(key) }

func snapshotInmem() map[string]inmem.VerifEntry { return inmem.VerifSnapshot() }

func init() {
	checks["C17"] = func(rep *Report, tier string, seed int64) {
		rep.Rule = "(a) sequential differential: seeded random sequences of all commands (multi-key and quiet gets, 6-key alphabet, TTLs from {0, small, large relative, 30 days -1/0/+1, absolute future, absolute past, absolute far future}) through the real server over text and binary on L1-only stacks whose L1 is the in-memory backend (with and without the locking wrapper); every reply is judged by the single-map specification and compared byte for byte with the Lean model (inmem handler over the reference map); directed cases: add on an existing key, delete / touch / replace / append of a missing key, an entry stored with an expiry in the past; (b) concurrent use of the ONE shared instance by 2..32 goroutines through the handler interface (built with the race detector): each goroutine owns a private key set on which its own results must equal the sequential expectation, and all of them also read and write shared and missing keys; a data race report or a fatal runtime error fails the check; distinct = distinct sequences in which a reply carried a value + distinct (goroutines, round) pairs; (c) atomicity of the conditional commands on the shared backend: 8 goroutines released together add the same absent key (exactly one is told 'stored' and its value is held), then delete it (exactly one is told 'deleted'), 4000 rounds (thorough 40000)"
		// (a)
		d := StartDriver()
		distinct := map[string]bool{}
		cfgs := []StackCfg{{Orca: "l1only", Locked: "none", Bits: 0, L1: "inmem"}, {Orca: "l1only", Locked: "mr", Bits: 2, L1: "inmem"}}
		per, steps := 20, 30
		if tier == "thorough" {
			per, steps = 150, 45
		}
		run := func(sc Scenario, tag string) bool {
			var out Outcome
			for attempt := 0; attempt < 3; attempt++ {
				out = RunScenarioO(d, sc, 3*time.Second, true)
				if !out.Tainted {
					break
				}
				rep.Tainted++
			}
			if out.Tainted {
				return true
			}
			rep.Evaluations++
			countDistribution(rep, sc)
			for _, ob := range out.Obs {
				if len(ob.Out) > 60 {
					distinct[tag] = true
				}
			}
			if len(rep.Samples) < 2 {
				rep.Samples = append(rep.Samples, describeScenario(sc))
			}
			for _, m := range out.Misses {
				rep.Violations = append(rep.Violations, Violation{
					What:      fmt.Sprintf("reply differs from the single-map specification at step %d (%s): %s", m.Step, out.Descs[m.Step], m.Verdict),
					Signature: classifyMiss(sc, m.Step, out.Obs),
					Replay:    map[string]interface{}{"scenario": describeScenario(sc), "step": m.Step, "driver_script": out.Script, "impl_reply": canonN(2048, out.Obs[m.Step].Out)},
				})
			}
			if out.Div != nil {
				rep.Divergences = append(rep.Divergences, out.Div)
				return len(rep.Divergences) < 5
			}
			rep.Validated++
			return true
		}
		now := time.Now().Unix()
		k := []byte("dir")
		feed := func(conn string, c Command) Step { return Step{Kind: "feed", Conn: conn, Cmd: c} }
		get := Command{Kind: "get", Keys: []GetKey{{Key: k, Opaque: 9}}}
	outer:
		for ci, cfg := range cfgs {
			conns := []ConnCfg{{ID: "t", Port: "main", Proto: "text"}, {ID: "b", Port: "main", Proto: "bin"}}
			// directed
			dir := Scenario{ID: fmt.Sprintf("C17-dir-%d", ci), Stack: cfg, Conns: conns, Steps: []Step{
				feed("b", Command{Kind: "delete", Key: k, Opaque: 1}),
				feed("t", Command{Kind: "touch", Key: k, Exptime: 10, Opaque: 2}),
				feed("b", Command{Kind: "replace", Key: k, Data: []byte("r"), Opaque: 3}),
				feed("t", Command{Kind: "append", Key: k, Data: []byte("a"), Opaque: 4}),
				feed("b", Command{Kind: "add", Key: k, Flags: 7, Data: []byte("first"), Opaque: 5}),
				feed("t", Command{Kind: "add", Key: k, Flags: 8, Data: []byte("second"), Opaque: 6}),
				feed("b", get),
				feed("b", Command{Kind: "set", Key: k, Flags: 1, Exptime: uint32(now) - 100, Data: []byte("born-expired"), Opaque: 7}),
				feed("t", get),
				feed("b", Command{Kind: "add", Key: k, Flags: 2, Exptime: uint32(now) + thirtyDays + 500, Data: []byte("far-future"), Opaque: 8}),
				feed("t", get),
				feed("b", Command{Kind: "touch", Key: k, Exptime: uint32(now) - 5, Opaque: 10}),
				feed("b", get),
				feed("t", Command{Kind: "delete", Key: k, Opaque: 11}),
			}}
			if !run(dir, "dir") {
				break outer
			}
			for n := 0; n < per; n++ {
				g := &Gen{r: rand.New(rand.NewSource(seed*1000003 + int64(ci)*7919 + int64(n) + 1717))}
				sc := genSequence(g, fmt.Sprintf("C17-%d-%d", ci, n), cfg, seqOpts{Steps: steps, MaxChunks: 2})
				sc.Conns = conns
				if !run(sc, fmt.Sprintf("seq/%d/%d", ci, n)) {
					break outer
				}
			}
		}
		d.Close()

		// (b) concurrent use of the shared instance
		rounds := 6
		if tier == "thorough" {
			rounds = 40
		}
		for round := 0; round < rounds; round++ {
			inmem.VerifReset()
			n := []int{2, 3, 8, 32, 5, 16}[round%6]
			var wg sync.WaitGroup
			errs := make(chan string, n)
			for gi := 0; gi < n; gi++ {
				wg.Add(1)
				go func(gi int) {
					defer wg.Done()
					defer func() {
						if r := recover(); r != nil {
							errs <- fmt.Sprintf("goroutine %d panicked: %v", gi, r)
						}
					}()
					// every connection of the server obtains the backend through the constructor: so
					// does every goroutine here (they must all end up on ONE map under ONE lock)
					hnd, _ := inmem.New()
					r := rand.New(rand.NewSource(seed*977 + int64(round)*131 + int64(gi)))
					priv := map[string][]byte{}
					for op := 0; op < 300; op++ {
						pk := fmt.Sprintf("g%d-%d", gi, r.Intn(4))
						shared := fmt.Sprintf("shared-%d", r.Intn(3))
						missing := fmt.Sprintf("missing-%d-%d", gi, op)
						switch r.Intn(9) {
						case 0:
							v := []byte(fmt.Sprintf("v%d-%d", gi, op))
							hnd.Set(common.SetRequest{Key: []byte(pk), Data: v, Flags: uint32(gi)})
							priv[pk] = v
						case 1:
							v := []byte(fmt.Sprintf("a%d-%d", gi, op))
							err := hnd.Add(common.SetRequest{Key: []byte(pk), Data: v, Flags: uint32(gi)})
							_, had := priv[pk]
							if had != (err == common.ErrKeyExists) {
								errs <- fmt.Sprintf("goroutine %d: add on private key %s (present=%v) returned %v", gi, pk, had, err)
								return
							}
							if !had {
								priv[pk] = v
							}
						case 2:
							err := hnd.Delete(common.DeleteRequest{Key: []byte(pk)})
							_, had := priv[pk]
							if had != (err == nil) {
								errs <- fmt.Sprintf("goroutine %d: delete of private key %s (present=%v) returned %v", gi, pk, had, err)
								return
							}
							delete(priv, pk)
						case 3, 4:
							keys := [][]byte{[]byte(pk), []byte(missing), []byte(shared)}
							rc, ec := hnd.Get(common.GetRequest{Keys: keys, Opaques: []uint32{1, 2, 3}, Quiet: []bool{false, false, false}})
							for res := range rc {
								if string(res.Key) == pk {
									want, had := priv[pk]
									if had == res.Miss || (had && !bytes.Equal(res.Data, want)) {
										errs <- fmt.Sprintf("goroutine %d: get of private key %s returned miss=%v data=%q, expected present=%v %q", gi, pk, res.Miss, res.Data, had, want)
										return
									}
								}
								if string(res.Key) == missing && !res.Miss {
									errs <- fmt.Sprintf("goroutine %d: get of a key nobody wrote returned a value", gi)
									return
								}
							}
							for range ec {
							}
						case 5:
							hnd.Set(common.SetRequest{Key: []byte(shared), Data: []byte(fmt.Sprintf("s%d", gi))})
						case 6:
							hnd.Touch(common.TouchRequest{Key: []byte(missing), Exptime: 5})
							hnd.GAT(common.GATRequest{Key: []byte(shared), Exptime: 50})
						case 7:
							hnd.Append(common.SetRequest{Key: []byte(shared), Data: []byte("+")})
							hnd.Delete(common.DeleteRequest{Key: []byte(missing)})
						case 8:
							rc, ec := hnd.GetE(common.GetRequest{Keys: [][]byte{[]byte(missing), []byte(shared)}, Opaques: []uint32{1, 2}, Quiet: []bool{true, false}})
							for range rc {
							}
							for range ec {
							}
						}
					}
				}(gi)
			}
			wg.Wait()
			close(errs)
			rep.Evaluations++
			rep.Validated++
			rep.Distribution[fmt.Sprintf("goroutines:%d", n)]++
			distinct[fmt.Sprintf("conc/%d/%d", n, round)] = true
			for e := range errs {
				rep.Violations = append(rep.Violations, Violation{What: "concurrent use of the shared in-memory backend: " + e, Signature: "inmem-concurrent",
					Replay: map[string]interface{}{"goroutines": n, "round": round, "seed": seed}})
			}
		}
		// atomicity of the conditional commands: of several connections adding the SAME absent key at the
		// same moment exactly one is told "stored" and its value is the one held afterwards; of several
		// deleting the same present key exactly one is told "deleted"
		{
			inmem.VerifReset()
			hnd, err := inmem.New()
			must(err)
			// (one handler per connection, as the server obtains them)
			var hnds [8]handlers.Handler
			for i := range hnds {
				hnds[i], err = inmem.New()
				must(err)
			}
			rounds := 4000
			if tier == "thorough" {
				rounds = 40000
			}
			const n = 8
			for round := 0; round < rounds; round++ {
				key := []byte(fmt.Sprintf("once-%d", round))
				var start, wg sync.WaitGroup
				start.Add(1)
				won := make([]bool, n)
				for gi := 0; gi < n; gi++ {
					wg.Add(1)
					go func(gi int) {
						defer wg.Done()
						start.Wait()
						won[gi] = hnds[gi].Add(common.SetRequest{Key: key, Data: []byte{byte('A' + gi)}, Flags: uint32(gi)}) == nil
					}(gi)
				}
				start.Done()
				wg.Wait()
				winners, who := 0, -1
				for gi, w := range won {
					if w {
						winners++
						who = gi
					}
				}
				held := ""
				rc, ec := hnd.Get(common.GetRequest{Keys: [][]byte{key}, Opaques: []uint32{1}, Quiet: []bool{false}})
				for res := range rc {
					if !res.Miss {
						held = string(res.Data)
					}
				}
				for range ec {
				}
				if winners != 1 || held != string([]byte{byte('A' + who)}) {
					rep.Violations = append(rep.Violations, Violation{What: fmt.Sprintf("%d connections add the same absent key at once: %d were told it was stored, the backend holds %q (round %d)", n, winners, held, round),
						Signature: "inmem-add-not-atomic", Replay: map[string]interface{}{"goroutines": n, "round": round, "stored_reported_by": winners, "held": held}})
					break
				}
				// the mirror image: one delete wins
				start.Add(1)
				deleted := make([]bool, n)
				for gi := 0; gi < n; gi++ {
					wg.Add(1)
					go func(gi int) {
						defer wg.Done()
						start.Wait()
						deleted[gi] = hnd.Delete(common.DeleteRequest{Key: key}) == nil
					}(gi)
				}
				start.Done()
				wg.Wait()
				dels := 0
				for _, w := range deleted {
					if w {
						dels++
					}
				}
				if dels != 1 {
					rep.Violations = append(rep.Violations, Violation{What: fmt.Sprintf("%d connections delete the same present key at once: %d were told it was deleted (round %d)", n, dels, round),
						Signature: "inmem-delete-not-atomic", Replay: map[string]interface{}{"goroutines": n, "round": round, "deleted_reported_by": dels}})
					break
				}
			}
			rep.Evaluations += rounds
			rep.Distribution["same-key-add-delete-rounds"] = rounds
		}
		inmem.VerifReset()
		rep.Distinct = len(distinct)
	}
}

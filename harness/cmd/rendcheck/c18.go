package main

import (
	"fmt"
	"math/rand"
	"net/http"
	"net/http/httptest"
	"runtime"
	"sort"
	"strconv"
	"strings"
	"sync"
	"sync/atomic"

	"github.com/netflix/rend/metrics"
)

func u64s(xs []uint64) string {
	ss := make([]string, len(xs))
	for i, x := range xs {
		ss[i] = strconv.FormatUint(x, 10)
	}
	return strings.Join(ss, ",")
}

func init() {
	checks["C18"] = func(rep *Report, tier string, seed int64) {
		rep.Rule = "bucket/lzcnt grid: every bucket bound -1/0/+1, every power of two -1/0/+1, 0..300, random 64-bit values: real getBucket / lzcnt (hook H2) vs the regenerated Lean definitions, plus monotonicity and upper-bound oracle on the real function; histogram periods: random multisets (sizes 1..40000, sampled and unsampled, consecutive periods so that recycled rings are stale, values of all magnitudes) through the real ObserveHist/extract/percentiles vs the Lean period model, plus count/membership/min-max oracle; counters: concurrent increments from 2..32 goroutines vs the sum; distinct = distinct (period length class, sampled) + distinct grid values; the /metrics HTTP handler itself is called and the lines it prints for a counter incremented past 2^63 and a histogram period {5, 2^63} are compared with those values (unsigned decimals)"
		d := StartDriver()
		defer d.Close()
		r := rand.New(rand.NewSource(seed))
		thorough := tier == "thorough"
		bad := func(what, impl, model string) {
			rep.Divergences = append(rep.Divergences, &Divergence{Scenario: "metrics-grid", What: what, Impl: impl, Model: model})
		}
		viol := func(what, sig string, replay interface{}) {
			rep.Violations = append(rep.Violations, Violation{What: what, Signature: sig, Replay: replay})
		}
		// ---- grid values
		vals := map[uint64]bool{}
		for _, b := range metrics.VerifBucketValues() {
			for _, dlt := range []int64{-1, 0, 1} {
				vals[uint64(b+dlt)] = true
			}
		}
		for k := uint(0); k < 64; k++ {
			p := uint64(1) << k
			vals[p-1], vals[p], vals[p+1] = true, true, true
		}
		for i := uint64(0); i <= 300; i++ {
			vals[i] = true
		}
		nr := 20000
		if thorough {
			nr = 300000
		}
		for i := 0; i < nr; i++ {
			v := r.Uint64() >> uint(r.Intn(64))
			vals[v] = true
		}
		vals[^uint64(0)] = true
		sorted := make([]uint64, 0, len(vals))
		for v := range vals {
			sorted = append(sorted, v)
		}
		sort.Slice(sorted, func(i, j int) bool { return sorted[i] < sorted[j] })
		bv := metrics.VerifBucketValues()
		prevB := uint64(0)
		for _, v := range sorted {
			b := metrics.VerifGetBucket(v)
			if got := d.Send(fmt.Sprintf("fn bucket %d", v), 1)[0]; got != fmt.Sprint(b) {
				bad(fmt.Sprintf("getBucket(%d)", v), fmt.Sprint(b), got)
			}
			if b < prevB {
				viol(fmt.Sprintf("getBucket not monotone at %d: bucket %d after %d", v, b, prevB), "bucket-not-monotone", map[string]interface{}{"value": v})
			}
			prevB = b
			if v <= 1<<63-1 && (b >= uint64(len(bv)) || uint64(bv[b]) < v) {
				viol(fmt.Sprintf("bucket bound below value: getBucket(%d)=%d", v, b), "bucket-bound", map[string]interface{}{"value": v})
			}
			lz := metrics.VerifLzcnt(v)
			got := d.Send(fmt.Sprintf("fn lzcnt %d", v), 1)[0]
			// the property itself: the assembly routine (compiled here) and the portable routine (metrics/lzcnt.go,
			// translated into Lean on this run and evaluated by the driver) agree on every input
			var portable, clz uint64
			if n, _ := fmt.Sscanf(got, "%d %d", &portable, &clz); n == 2 && portable != lz {
				viol(fmt.Sprintf("bit count of %d: the assembly routine returns %d, the portable routine %d", v, lz, portable), "lzcnt-disagree", map[string]interface{}{"value": v, "assembly": lz, "portable": portable})
			} else if got != fmt.Sprintf("%d %d", lz, lz) {
				bad(fmt.Sprintf("lzcnt(%d): compiled routine vs (portable model, clz model)", v), fmt.Sprintf("%d %d", lz, lz), got)
			}
			if got := d.Send(fmt.Sprintf("fn lzcntasm %d %d", v, r.Uint64()), 1)[0]; got != fmt.Sprint(lz) {
				bad(fmt.Sprintf("lzcnt(%d): compiled routine vs assembly model", v), fmt.Sprint(lz), got)
			}
			rep.Evaluations++
		}
		distinct := len(sorted)
		rep.Extra["grid_values"] = len(sorted)

		// ---- histogram periods
		periods := 60
		if thorough {
			periods = 400
		}
		for _, sampled := range []bool{false, true} {
			id := metrics.AddHistogram(fmt.Sprintf("verif_%d_%v", seed, sampled), sampled, nil)
			metrics.VerifHistPeriod(id) // start from a clean period
			sflag := "0"
			if sampled {
				sflag = "1"
			}
			d.Send("histnew "+sflag, 0)
			// the real ring buffers are recycled: mirror one discarded extraction
			classes := map[string]bool{}
			for p := 0; p < periods; p++ {
				n := 1 + r.Intn(50)
				switch r.Intn(4) {
				case 0:
					n = 1 + r.Intn(3)
				case 1:
					n = 100 + r.Intn(1500)
				}
				// a few long periods: just below, at and beyond the ring size, so that later periods run
				// on recycled (stale) rings and the ring wraps
				big := map[int]int{2: 32760 + r.Intn(8), 5: 32768, 9: 32769 + r.Intn(1500)}
				if thorough {
					big[14], big[21], big[33] = 40000+r.Intn(30000), 32767, 65537+r.Intn(1000)
				}
				if sampled {
					for k, v := range big {
						big[k] = v * 4
					}
				}
				if b, ok := big[p]; ok {
					n = b
				}
				crumb(fmt.Sprintf("a histogram period of %d observations (sampled=%v, period %d of a run of consecutive periods on recycled rings), then its statistics are extracted", n, sampled, p), nil)
				obs := make([]uint64, n)
				set := map[uint64]bool{}
				for i := range obs {
					obs[i] = r.Uint64() >> uint(r.Intn(64))
					if r.Intn(10) == 0 {
						obs[i] = uint64(r.Intn(20))
					}
					set[obs[i]] = true
					metrics.ObserveHist(id, obs[i])
				}
				count, kept, min, max, pctls := metrics.VerifHistPeriod(id)
				impl := fmt.Sprintf("%d %d %d %d %s", count, kept, min, max, u64s(pctls[:]))
				d.Send("histobs "+u64s(obs), 0)
				got := d.Send("histextract", 1)[0]
				if got != impl {
					bad(fmt.Sprintf("histogram period %d (sampled=%v, %d observations)", p, sampled, n), canonN(400, []byte(impl)), canonN(400, []byte(got)))
					if enoughDivergences(rep, 3) {
						break
					}
				}
				rep.Evaluations++
				rep.Validated++
				classes[fmt.Sprintf("%v/%d", sampled, n/1000)] = true
				// oracle on the implementation
				if count != uint64(n) {
					viol(fmt.Sprintf("reported count %d for %d observations", count, n), "hist-count", map[string]interface{}{"sampled": sampled, "n": n})
				}
				if kept > 0 {
					for i, pv := range pctls {
						if !set[pv] {
							viol(fmt.Sprintf("percentile slot %d reports %d, which was not observed in the period (%d observations, kept %d)", i, pv, n, kept), "hist-percentile-not-observed",
								map[string]interface{}{"sampled": sampled, "observations": obs[:minInt(n, 50)], "slot": i, "value": pv})
							break
						}
						if pv < min || pv > max {
							viol(fmt.Sprintf("percentile slot %d = %d outside [min %d, max %d]", i, pv, min, max), "hist-percentile-range", map[string]interface{}{"sampled": sampled, "n": n})
							break
						}
					}
				}
				if len(rep.Samples) < 2 && n < 8 {
					rep.Samples = append(rep.Samples, map[string]interface{}{"sampled": sampled, "observations": obs, "reported": impl})
				}
			}
			distinct += len(classes)
		}

		// ---- observations that go on while a period is being summarised: the period is swapped out,
		// observations of the NEXT period are recorded, then the percentiles of the swapped-out period
		// are computed (the order of events when /metrics is read under traffic) — they are still
		// observations of that period, and the next period holds exactly the later observations
		{
			id := metrics.AddHistogram(fmt.Sprintf("verif_interleaved_%d", seed), false, nil)
			metrics.VerifHistPeriod(id)
			for round := 0; round < 6; round++ {
				n := []int{10, 100, 1000, 5, 32768, 40000}[round]
				crumb(fmt.Sprintf("a histogram period of %d observations is swapped out, 3 later observations are recorded, then its percentiles are computed", n), nil)
				set := map[uint64]bool{}
				for i := 0; i < n; i++ {
					v := uint64(100 + r.Intn(900))
					set[v] = true
					metrics.ObserveHist(id, v)
				}
				later := []uint64{5000000 + uint64(round), 6000000, 7000000}
				count, _, min, max, pctls := metrics.VerifHistPeriodInterleaved(id, later)
				rep.Evaluations++
				rep.Distribution["interleaved-periods"]++
				ok := true
				if count != uint64(n) {
					ok = false
					viol(fmt.Sprintf("a period of %d observations read while 3 later observations arrive is reported with count %d", n, count), "hist-interleaved-count", map[string]interface{}{"n": n})
				}
				for i, pv := range pctls {
					if !set[pv] || pv < min || pv > max {
						ok = false
						viol(fmt.Sprintf("a period of %d observations in [100, 1000) is swapped out, then %v are observed, then its percentiles are computed: slot %d reports %d (min %d, max %d) — not an observation of that period", n, later, i, pv, min, max),
							"hist-interleaved-percentile", map[string]interface{}{"n": n, "later": later, "slot": i, "value": pv})
						break
					}
				}
				c2, _, min2, max2, _ := metrics.VerifHistPeriod(id)
				if c2 != 3 || min2 != later[0] || max2 != later[2] {
					ok = false
					viol(fmt.Sprintf("the period after it holds count %d, min %d, max %d; the 3 later observations were %v", c2, min2, max2, later), "hist-interleaved-next", map[string]interface{}{"n": n})
				}
				if ok {
					rep.Validated++
				}
			}
		}

		// ---- min and max of a period under concurrent observers: 4 goroutines released together,
		// each with one value, many rounds; the period read afterwards reports the true extremes
		{
			id := metrics.AddHistogram(fmt.Sprintf("verif_extremes_%d", seed), false, nil)
			metrics.VerifHistPeriod(id)
			rounds := 20000
			if thorough {
				rounds = 200000
			}
			const g = 4
			var ready, goFlag int32
			vals := make([]uint64, g)
			done := make(chan struct{}, g)
			stop := int32(0)
			for i := 0; i < g; i++ {
				go func(i int) {
					gen := int32(0)
					for {
						for atomic.LoadInt32(&goFlag) == gen {
							if atomic.LoadInt32(&stop) != 0 {
								return
							}
							runtime.Gosched()
						}
						gen = atomic.LoadInt32(&goFlag)
						metrics.ObserveHist(id, vals[i])
						done <- struct{}{}
					}
				}(i)
			}
			_ = ready
			bad := 0
			crumb("a histogram observed by 4 goroutines at the same moment, then read", nil)
			for round := 0; round < rounds && bad == 0; round++ {
				base := uint64(1000 + round%7)
				// every goroutine carries a new extreme relative to the previous ones' order
				vals[0], vals[1], vals[2], vals[3] = base+10, base+20, base-10, base-20
				metrics.ObserveHist(id, base)
				atomic.AddInt32(&goFlag, 1)
				for i := 0; i < g; i++ {
					<-done
				}
				count, _, min, max, _ := metrics.VerifHistPeriod(id)
				if count != g+1 || min != base-20 || max != base+20 {
					bad++
					viol(fmt.Sprintf("a period observed as %d, then concurrently %d, %d, %d, %d is reported with count %d, min %d, max %d (round %d)", base, vals[0], vals[1], vals[2], vals[3], count, min, max, round),
						"hist-concurrent-extremes", map[string]interface{}{"round": round})
				}
			}
			atomic.StoreInt32(&stop, 1)
			rep.Evaluations += rounds
			rep.Distribution["concurrent-extreme-rounds"] += rounds
			if bad == 0 {
				rep.Validated++
			}
		}

		// ---- counters under concurrency
		for _, g := range []int{2, 8, 32} {
			id := metrics.AddCounter(fmt.Sprintf("verif_ctr_%d_%d", seed, g), nil)
			var wg sync.WaitGroup
			var want uint64
			per := 2000
			amounts := make([][]uint64, g)
			for i := 0; i < g; i++ {
				for j := 0; j < per; j++ {
					a := uint64(1)
					if j%3 == 0 {
						a = uint64(r.Intn(1000))
					}
					amounts[i] = append(amounts[i], a)
					want += a
				}
			}
			for i := 0; i < g; i++ {
				wg.Add(1)
				go func(i int) {
					defer wg.Done()
					for _, a := range amounts[i] {
						if a == 1 {
							metrics.IncCounter(id)
						} else {
							metrics.IncCounterBy(id, a)
						}
						if a%97 == 0 {
							metrics.VerifAllMetrics() // a concurrent reader
						}
					}
				}(i)
			}
			wg.Wait()
			ints, _, _ := metrics.VerifAllMetrics()
			var got uint64
			found := false
			for _, m := range ints {
				if m.Name == fmt.Sprintf("verif_ctr_%d_%d", seed, g) {
					got, found = m.Val, true
				}
			}
			if !found || got != want {
				viol(fmt.Sprintf("counter reports %d after increments summing to %d from %d goroutines", got, want, g), "counter-sum", map[string]interface{}{"goroutines": g})
			}
			rep.Evaluations++
		}
		// the statistics as /metrics assembles them (getAllHistograms), for a SAMPLED histogram: count is
		// the number of observations, kept the number of retained ones
		{
			hname := fmt.Sprintf("verif_sampled_count_%d", seed)
			hid := metrics.AddHistogram(hname, true, nil)
			for _, n := range []int{100, 7, 4001} {
				for i := 0; i < n; i++ {
					metrics.ObserveHist(hid, uint64(1000+i))
				}
				ints, _, _ := metrics.VerifAllMetrics()
				var count uint64
				found := false
				for _, m := range ints {
					if strings.Contains(m.Name, hname) && m.Tgs[metrics.TagStatistic] == "count" {
						count, found = m.Val, true
					}
				}
				rep.Evaluations++
				if !found || count != uint64(n) {
					viol(fmt.Sprintf("a sampled histogram period of %d observations is reported with count %d (found=%v)", n, count, found), "sampled-count", map[string]interface{}{"observations": n, "reported": count})
					break
				}
			}
		}
		// what the /metrics endpoint PRINTS is what the registry holds: every value as an unsigned
		// decimal, also above 2^63 (a counter that wrapped into the upper half, a huge observation)
		{
			cname := fmt.Sprintf("verif_bigctr_%d", seed)
			cid := metrics.AddCounter(cname, nil)
			metrics.IncCounterBy(cid, 1<<62)
			metrics.IncCounterBy(cid, 1<<62)
			metrics.IncCounterBy(cid, 12345)
			hname := fmt.Sprintf("verif_bighist_%d", seed)
			hid := metrics.AddHistogram(hname, false, nil)
			metrics.ObserveHist(hid, 5)
			metrics.ObserveHist(hid, 1<<63)
			rec := httptest.NewRecorder()
			http.DefaultServeMux.ServeHTTP(rec, httptest.NewRequest("GET", "/metrics", nil))
			printed := map[string][]string{}
			for _, line := range strings.Split(rec.Body.String(), "\n") {
				f := strings.Fields(line)
				if len(f) == 2 && (strings.Contains(f[0], cname) || strings.Contains(f[0], hname)) {
					printed[f[0]] = append(printed[f[0]], f[1])
				}
			}
			rep.Evaluations++
			rep.Distribution["endpoint-lines-checked"] = len(printed)
			wantCtr := fmt.Sprint(uint64(1<<63 + 12345))
			okCtr, sawMax := false, false
			for name, vals := range printed {
				for _, v := range vals {
					if strings.HasPrefix(v, "-") {
						viol(fmt.Sprintf("/metrics prints %s as %s: a negative number for an unsigned metric", name, v), "endpoint-negative", map[string]interface{}{"line": name + " " + v})
					}
					if strings.Contains(name, cname) && v == wantCtr {
						okCtr = true
					}
					if strings.Contains(name, hname) && v == fmt.Sprint(uint64(1<<63)) {
						sawMax = true
					}
				}
			}
			if len(printed) == 0 {
				viol("/metrics printed no line for the metrics registered by the check", "endpoint-missing", nil)
			} else {
				if !okCtr {
					viol(fmt.Sprintf("/metrics does not print the counter incremented by 2^62 + 2^62 + 12345 as %s", wantCtr), "endpoint-counter", map[string]interface{}{"printed": printed})
				}
				if !sawMax {
					viol("/metrics prints no statistic of the histogram period {5, 2^63} as 9223372036854775808 (its maximum)", "endpoint-histogram", map[string]interface{}{"printed": printed})
				}
			}
		}
		if len(rep.Samples) == 0 {
			rep.Samples = append(rep.Samples, map[string]interface{}{"grid_value_examples": sorted[:minInt(10, len(sorted))]})
		}
		rep.Distinct = distinct
	}
}

func minInt(a, b int) int {
	if a < b {
		return a
	}
	return b
}

package main

import (
	"bytes"
	"fmt"
	"math/rand"
	"os"
	"time"
)

func lockedConfigs(tier string) []StackCfg {
	cfgs := []StackCfg{
		{Orca: "l1l2", Locked: "mr", Bits: 2, L1: "std"},
		{Orca: "l1l2", Locked: "sr", Bits: 3, L1: "chunked"},
		{Orca: "l1only", Locked: "sr", Bits: 1, L1: "chunked"},
		{Orca: "l1only", Locked: "sr", Bits: 1, L1: "std"}, // the stack that serves get-with-expiry
	}
	if tier == "thorough" {
		cfgs = append(cfgs, StackCfg{Orca: "l1only", Locked: "mr", Bits: 8, L1: "std"}, StackCfg{Orca: "l1l2", Locked: "sr", Bits: 0, L1: "std"})
	}
	return cfgs
}

// pairedLocks checks that a connection's lock log is a sequence of acquire/release pairs of the
// same stripe and mode: never two locks held, none held at the end.
func pairedLocks(log []string) string {
	for i := 0; i < len(log); i += 2 {
		if log[i][0] != 'A' {
			return fmt.Sprintf("event %d is %s: a release without a lock held", i, log[i])
		}
		if i+1 >= len(log) {
			return fmt.Sprintf("lock %s is still held when the command is over", log[i][1:])
		}
		if log[i+1] != "R"+log[i][1:] {
			return fmt.Sprintf("%s is followed by %s: a second lock is taken, or another one released, while %s is held", log[i], log[i+1], log[i][1:])
		}
	}
	return ""
}

// faultPlans enumerates the fault kinds of C10 / C12.
func faultPlans(tier string, maxIdx int) []FaultSpec {
	var out []FaultSpec
	for _, t := range []string{"L1", "L2"} {
		for idx := 0; idx <= maxIdx; idx++ {
			out = append(out, FaultSpec{Tier: t, Index: idx, Kind: "cut-before"}, FaultSpec{Tier: t, Index: idx, Kind: "cut-after"})
			// every memcached error status (the quick tier samples the grid; see the always-run rules of the checks)
			codes := []uint16{0x0001, 0x0002, 0x0003, 0x0004, 0x0005, 0x0081, 0x0082, 0x0084, 0x0085, 0x0086}
			_ = tier
			for _, c := range codes {
				out = append(out, FaultSpec{Tier: t, Index: idx, Kind: "status", Status: c})
			}
		}
	}
	return out
}

// faultCommands: one command of every kind on key k (present in both tiers when `warm`).
func faultCommands(proto string, k, k2 []byte) []Command {
	cmds := []Command{
		{Kind: "set", Key: k, Flags: 3, Exptime: 0, Data: []byte("new-value"), Opaque: 41},
		{Kind: "add", Key: k2, Flags: 4, Data: []byte("added"), Opaque: 42},
		{Kind: "replace", Key: k, Flags: 5, Data: []byte("replaced"), Opaque: 43},
		{Kind: "append", Key: k, Data: []byte("+app"), Opaque: 44},
		{Kind: "prepend", Key: k, Data: []byte("pre+"), Opaque: 45},
		{Kind: "delete", Key: k, Opaque: 46},
		{Kind: "touch", Key: k, Exptime: 600, Opaque: 47},
		{Kind: "get", Keys: []GetKey{{Key: k, Opaque: 48}}},
		{Kind: "get", Keys: []GetKey{{Key: k, Opaque: 49, Quiet: proto == "bin"}, {Key: k2, Opaque: 50, Quiet: proto == "bin"}, {Key: k, Opaque: 51}}},
		// consecutive keys on ONE lock stripe (the same key twice), then another: a failure under
		// the first must not leave the stripe locked for the second
		{Kind: "get", Keys: []GetKey{{Key: k, Opaque: 58, Quiet: proto == "bin"}, {Key: k, Opaque: 59, Quiet: proto == "bin"}, {Key: k2, Opaque: 60}}},
	}
	if proto == "bin" {
		cmds = append(cmds, Command{Kind: "gat", Key: k, Exptime: 700, Opaque: 52},
			// get-with-expiry (L1-only stacks serve it, the two-tier orchestrators refuse it): several keys,
			// and the same key twice (the wrapper must not hold the first key's lock while it takes the second)
			Command{Kind: "gete", Keys: []GetKey{{Key: k, Opaque: 53, Quiet: true}, {Key: k2, Opaque: 54, Quiet: true}, {Key: k, Opaque: 55}}},
			Command{Kind: "gete", Keys: []GetKey{{Key: k, Opaque: 56, Quiet: true}, {Key: k, Opaque: 57}}})
	}
	return cmds
}

// faultScenario: warm both tiers, optionally lose the key in L1, plan the fault, issue the command
// on connection A, then use the same keys from connection B.
func faultScenario(id string, cfg StackCfg, proto string, cmd Command, f FaultSpec, loseL1 bool, onBatchPort ...bool) Scenario {
	k, k2 := []byte("foo"), []byte("bar")
	sc := Scenario{ID: id, Stack: cfg}
	sc.Conns = []ConnCfg{{ID: "A", Port: "main", Proto: proto}, {ID: "B", Port: "main", Proto: "bin"}}
	if cfg.Orca == "l1l2" {
		sc.Conns = append(sc.Conns, ConnCfg{ID: "C", Port: "batch", Proto: "bin"})
	}
	feed := func(conn string, c Command) Step { return Step{Kind: "feed", Conn: conn, Cmd: c} }
	sc.Steps = append(sc.Steps, feed("B", Command{Kind: "set", Key: k, Flags: 1, Data: []byte("old-value"), Opaque: 1}))
	if loseL1 && cfg.Orca == "l1l2" {
		lk := k
		if cfg.L1 == "chunked" {
			lk = []byte("foo-meta")
		}
		sc.Steps = append(sc.Steps, Step{Kind: "evict", Tier: "L1", Key: lk})
	}
	ff := f
	faulted := "A"
	if len(onBatchPort) > 0 && onBatchPort[0] && cfg.Orca == "l1l2" && proto == "bin" {
		faulted = "C" // the command that meets the fault is issued on the batch port
	}
	sc.Steps = append(sc.Steps, Step{Kind: "fault", Fault: &ff}, feed(faulted, cmd))
	// the same keys from another connection: every lock must be free again
	sc.Steps = append(sc.Steps,
		feed("B", Command{Kind: "get", Keys: []GetKey{{Key: k, Opaque: 61, Quiet: true}, {Key: k2, Opaque: 62}}}),
		feed("B", Command{Kind: "set", Key: k, Flags: 7, Data: []byte("after"), Opaque: 63}),
		feed("B", Command{Kind: "delete", Key: k2, Opaque: 64}),
		feed("A", Command{Kind: "get", Keys: []GetKey{{Key: k, Opaque: 65}}}))
	if cfg.Orca == "l1l2" {
		sc.Steps = append(sc.Steps, feed("C", Command{Kind: "touch", Key: k, Exptime: 50, Opaque: 66}))
	}
	if cfg.L1 == "chunked" {
		// values of several chunks: a fault can then strike between the chunks of one value, and
		// an overwrite that stops half-way leaves chunks of two values side by side
		for i := range sc.Steps {
			c := &sc.Steps[i].Cmd
			if sc.Steps[i].Kind == "feed" && (c.Kind == "set" || c.Kind == "add" || c.Kind == "replace") && len(c.Data) > 0 {
				c.Data = append(append([]byte{}, c.Data...), bytes.Repeat(c.Data[:1], 2500-len(c.Data))...)
			}
		}
	}
	return sc
}

// answeredOrError: on a connection that stays open the last thing the client received for the
// command is its terminator / acknowledgement or an error reply (never nothing, never a torso).
func answeredOrError(proto string, cmd Command, body []byte) string {
	if cmd.Quiet {
		return ""
	}
	if proto == "text" {
		its, err := decodeTextStrict(body)
		if err != nil {
			return "undecodable reply: " + err.Error()
		}
		if len(its) == 0 {
			return "nothing was sent in reply"
		}
		last := its[len(its)-1]
		if last.Value {
			return "the reply stops after a VALUE block, without END or an error line"
		}
		return ""
	}
	fs, err := decodeBinStrict(body)
	if err != nil {
		return "undecodable reply: " + err.Error()
	}
	if len(fs) == 0 {
		if (cmd.Kind == "get" || cmd.Kind == "gete") && cmd.Keys[len(cmd.Keys)-1].Quiet && !cmd.NoopEnd {
			return ""
		}
		return "nothing was sent in reply"
	}
	for _, f := range fs {
		if f.Status != 0 && f.Status != 1 {
			return "" // an error reply
		}
	}
	want := cmd.Opaque
	if cmd.Kind == "get" || cmd.Kind == "gete" {
		lk := cmd.Keys[len(cmd.Keys)-1]
		want = lk.Opaque
		if cmd.NoopEnd {
			want = cmd.NoopOpq
		} else if lk.Quiet {
			return ""
		}
	}
	// (answers of a multi-key get come L1 hits first: the frame that ends the request need not be last)
	for _, f := range fs {
		if f.Opaque == want {
			return ""
		}
	}
	return fmt.Sprintf("no frame with opaque %d, the one that ends the request, was received", want)
}

func init() {
	checks["C12"] = func(rep *Report, tier string, seed int64) {
		rep.Rule = "locked stacks (multi- and single-reader, pass-through and chunked L1, main and batch port sharing the lock set), rend's own lockers wrapped by logging lockers (hook): for every command kind x protocol x fault {backend connection cut before / after the request, error status} x tier x request index (quick: a seeded sample of the grid; thorough: the whole grid), with the key cached or lost in L1: the command is issued on one connection, then the same keys are used from two other connections; oracle: the lock log of every command is a sequence of acquire/release pairs of one stripe (never two locks, none left), no follow-up command hangs, and whenever the model says the connection is closed it is; reply bytes, endings, backend traces, contents and the lock log are compared with the Lean model on every step; distinct = distinct (configuration, protocol, command, fault, L1 state)"
		d := StartDriver()
		defer d.Close()
		r := rand.New(rand.NewSource(seed*131 + 9))
		distinct := map[string]bool{}
		sample := 0.05
		if tier == "thorough" {
			sample = 1.0
		}
		for ci, cfg := range lockedConfigs(tier) {
			maxIdx := 3
			if cfg.L1 == "chunked" {
				maxIdx = 5
			}
			for _, proto := range []string{"bin", "text"} {
				for cmi, cmd := range faultCommands(proto, []byte("foo"), []byte("bar")) {
					for fi, f := range faultPlans(tier, maxIdx) {
						if f.Tier == "L2" && cfg.Orca == "l1only" {
							continue
						}
						for _, lose := range []bool{false, true} {
							if lose && cfg.Orca != "l1l2" {
								continue
							}
							// connection cuts under a get (the back-fill write panics on an I/O error,
							// inside the per-key recover of the wrapper) are always run
							always := cmd.Kind == "get" && f.Kind != "status" && f.Tier == "L1" && f.Index <= 2 && proto == "bin"
							// multi-key get-with-expiry (its own method of the wrapper): a fault on a later key or none at all
							always = always || (cmd.Kind == "gete" && f.Kind == "cut-after" && f.Tier == "L1" && f.Index >= 1)
							if r.Float64() > sample && !always && os.Getenv("VERIF_ONLY") == "" {
								continue
							}
							tag := fmt.Sprintf("%d/%s/%d/%d/%v", ci, proto, cmi, fi, lose)
							if only := os.Getenv("VERIF_ONLY"); only != "" && only != tag {
								continue
							}
							sc := faultScenario("C12-"+tag, cfg, proto, cmd, f, lose, (cmi+fi)%2 == 1)
							t0 := time.Now()
							out := RunScenarioO(d, sc, 2*time.Second, false)
							if el := time.Since(t0); el > 500*time.Millisecond {
								rep.Distribution[fmt.Sprintf("slow:%s:%s:%s", cfg.L1, cmd.Kind, f.Kind)]++
							}
							if out.Tainted {
								out = RunScenarioO(d, sc, 2*time.Second, false)
							}
							if out.Tainted {
								rep.Tainted++
								continue
							}
							rep.Evaluations++
							distinct[tag] = true
							rep.Distribution["cmd:"+cmd.Kind]++
							rep.Distribution["fault:"+f.Kind]++
							if len(rep.Samples) < 3 {
								rep.Samples = append(rep.Samples, describeScenario(sc))
							}
							for i, ob := range out.Obs {
								if sc.Steps[i].Kind != "feed" {
									continue
								}
								rep.Distribution["ending:"+ob.Ending]++
								if msg := pairedLocks(ob.Locks); msg != "" {
									rep.Violations = append(rep.Violations, Violation{What: fmt.Sprintf("lock log of step %d (%s) under fault %s: %s", i, sc.Steps[i].Cmd.Describe(), f, msg),
										Signature: "locks-unpaired:" + sc.Steps[i].Cmd.Kind, Replay: map[string]interface{}{"scenario": describeScenario(sc), "step": i, "lock_log": ob.Locks, "driver_script": out.Script}})
								}
								if ob.Ending == "eof" {
									// the connection stays open: the request must have been answered (a
									// swallowed panic leaves the client waiting for the terminator)
									pr, sl := "bin", len(binSentinelReply)
									for _, c := range sc.Conns {
										if c.ID == sc.Steps[i].Conn && c.Proto == "text" {
											pr, sl = "text", len(textSentinelReply)
										}
									}
									if msg := answeredOrError(pr, sc.Steps[i].Cmd, ob.Out[:len(ob.Out)-sl]); msg != "" {
										rep.Violations = append(rep.Violations, Violation{What: fmt.Sprintf("step %d (%s) under fault %s: connection left open but %s", i, sc.Steps[i].Cmd.Describe(), f, msg),
											Signature: "unanswered:" + sc.Steps[i].Cmd.Kind + ":" + f.Kind, Replay: map[string]interface{}{"scenario": describeScenario(sc), "step": i, "reply": canonN(300, ob.Out), "driver_script": out.Script}})
									}
								}
								if ob.Ending == "hang" {
									rep.Violations = append(rep.Violations, Violation{What: fmt.Sprintf("step %d (%s) after fault %s on %s: no reply and no close within the timeout (a lock is still held, or the client is left waiting)", i, sc.Steps[i].Cmd.Describe(), f, cmd.Describe()),
										Signature: "hang:" + cmd.Kind + ":" + f.Kind, Replay: map[string]interface{}{"scenario": describeScenario(sc), "step": i, "driver_script": out.Script}})
								}
							}
							if out.Div != nil {
								rep.Divergences = append(rep.Divergences, out.Div)
								if len(rep.Divergences) > 8 {
									rep.Distinct = len(distinct)
									return
								}
								continue
							}
							rep.Validated++
						}
					}
				}
			}
		}
		panicRounds(rep, distinct)
		rep.Distinct = len(distinct)
	}
}

module verif/harness

go 1.23

require (
	github.com/anishathalye/porcupine v1.3.0
	github.com/netflix/rend v0.0.0
	golang.org/x/tools v0.29.0
)

require (
	golang.org/x/mod v0.22.0 // indirect
	golang.org/x/sync v0.10.0 // indirect
)

replace github.com/netflix/rend => /repo

// Package fakemc is an in-process fake of a memcached-like backend speaking the
// binary protocol subset rend's handlers use (plus the gete extension), with a
// request log, fault plans, a controllable clock offset and direct store access
// (dump / drop). It is itself validated against the Lean model `Mc.exec`: after
// every step of a correspondence case its dump is compared with the model's.
package fakemc

import (
	"bufio"
	"encoding/binary"
	"fmt"
	"io"
	"net"
	"sort"
	"strings"
	"sync"
	"time"
)

const (
	OpGet     = 0x00
	OpSet     = 0x01
	OpAdd     = 0x02
	OpReplace = 0x03
	OpDelete  = 0x04
	OpGetQ    = 0x09
	OpNoop    = 0x0a
	OpAppend  = 0x0e
	OpPrepend = 0x0f
	OpTouch   = 0x1c
	OpGat     = 0x1d
	OpGatQ    = 0x1e
	OpGetE    = 0x40
	OpGetEQ   = 0x41

	StOK        = 0x00
	StNotFound  = 0x01
	StExists    = 0x02
	StNotStored = 0x05
	StUnknown   = 0x81

	maxDelta = 60 * 60 * 24 * 30
)

var opNames = map[uint8]string{
	OpGet: "get", OpSet: "set", OpAdd: "add", OpReplace: "replace", OpDelete: "delete", OpGetQ: "getq",
	OpNoop: "noop", OpAppend: "append", OpPrepend: "prepend", OpTouch: "touch", OpGat: "gat", OpGatQ: "gatq",
	OpGetE: "gete", OpGetEQ: "geteq",
}

var statusText = map[uint16]string{
	StNotFound: "Not found", StExists: "Data exists for key.", 0x03: "Too large.", 0x04: "Invalid arguments",
	StNotStored: "Not stored.", 0x06: "Non-numeric server-side value for incr or decr", 0x20: "Auth failure.",
	StUnknown: "Unknown command", 0x82: "Out of memory", 0x83: "Not supported", 0x84: "Internal error",
	0x85: "Busy", 0x86: "Temporary failure",
}

type Item struct {
	Value    []byte
	Flags    uint32
	Deadline int64 // 0 = never
}

// Entry is one logged request with a summary of the response.
type Entry struct {
	Conn    int
	Op      string
	Key     []byte
	Flags   uint32
	Exptime uint32
	Value   []byte
	Opaque  uint32
	Resp    string // ok | st:<code> | hit:<flags>:<exp>:<value> | silent | (empty when cut before)
	RespVal []byte
	At      int64 // the backend's clock (second) when the request was logged
}

// FaultKind enumerates what a fault plan does to the matching request.
type FaultKind int

const (
	FaultStatus    FaultKind = iota // answer with Status, do not perform the operation
	FaultCutBefore                  // close the connection before performing the operation
	FaultCutAfter                   // perform the operation, close before replying
	FaultCutMid                     // perform the operation, send MidBytes bytes of the reply, close
)

type Fault struct {
	Index    int // request index (0-based) counted from the moment the fault was armed
	Kind     FaultKind
	Status   uint16
	MidBytes int
}

type Server struct {
	mu      sync.Mutex
	store   map[string]Item
	Offset  int64 // seconds added to the wall clock
	log     []Entry
	fault   *Fault
	seen    int // requests since the fault was armed
	conns   map[int]net.Conn
	nextID  int
	open    int
	ln      net.Listener
	Path    string
	accepts int
	// Gate, when set, is called before each request is processed (deterministic scheduling); the
	// function it returns, if any, is called once the request has been executed.
	Gate func(conn int, e *Entry) func()
	// FailPrefix, when set: every request on a key with this prefix is refused with FailStatus.
	FailPrefix string
	FailStatus uint16
	// Delay before each response (used by batching tests)
	closed bool
}

func New() *Server {
	return &Server{store: map[string]Item{}, conns: map[int]net.Conn{}}
}

func (s *Server) Now() int64 { return time.Now().Unix() + s.Offset }

func (s *Server) live(it Item, now int64) bool { return it.Deadline == 0 || now < it.Deadline }

func deadlineOf(now int64, exptime uint32) int64 {
	if exptime == 0 {
		return 0
	}
	if exptime <= maxDelta {
		return now + int64(exptime)
	}
	return int64(exptime)
}

// Listen starts serving on a unix socket at path.
func (s *Server) Listen(path string) error {
	ln, err := net.Listen("unix", path)
	if err != nil {
		return err
	}
	s.ln = ln
	s.Path = path
	go func() {
		for {
			c, err := ln.Accept()
			if err != nil {
				return
			}
			s.mu.Lock()
			s.accepts++
			s.mu.Unlock()
			go s.Serve(c)
		}
	}()
	return nil
}

// ListenTCP listens on a free loopback port and returns its address.
func (s *Server) ListenTCP() (string, error) {
	ln, err := net.Listen("tcp", "127.0.0.1:0")
	if err != nil {
		return "", err
	}
	s.ln = ln
	s.Path = ln.Addr().String()
	go func() {
		for {
			c, err := ln.Accept()
			if err != nil {
				return
			}
			s.mu.Lock()
			s.accepts++
			s.mu.Unlock()
			go s.Serve(c)
		}
	}()
	return s.Path, nil
}

// StopListening closes the listener (existing connections stay open).
func (s *Server) StopListening() {
	if s.ln != nil {
		s.ln.Close()
		s.ln = nil
	}
}

func (s *Server) Accepts() int {
	s.mu.Lock()
	defer s.mu.Unlock()
	return s.accepts
}

// Pipe returns the client end of a new in-memory connection served by s.
func (s *Server) Pipe() net.Conn {
	a, b := net.Pipe()
	go s.Serve(b)
	return a
}

func (s *Server) OpenConns() int {
	s.mu.Lock()
	defer s.mu.Unlock()
	return s.open
}

// CloseAll cuts every open connection.
func (s *Server) CloseAll() {
	s.mu.Lock()
	cs := make([]net.Conn, 0, len(s.conns))
	for _, c := range s.conns {
		cs = append(cs, c)
	}
	s.mu.Unlock()
	for _, c := range cs {
		c.Close()
	}
}

func (s *Server) Arm(f *Fault) {
	s.mu.Lock()
	s.fault = f
	s.seen = 0
	s.mu.Unlock()
}

func (s *Server) TakeLog() []Entry {
	s.mu.Lock()
	defer s.mu.Unlock()
	l := s.log
	s.log = nil
	return l
}

func (s *Server) Put(key string, it Item) {
	s.mu.Lock()
	s.store[key] = it
	s.mu.Unlock()
}

func (s *Server) Drop(key string) {
	s.mu.Lock()
	delete(s.store, key)
	s.mu.Unlock()
}

// Dump returns the live entries, sorted by key.
func (s *Server) Dump() (keys []string, items []Item) {
	s.mu.Lock()
	defer s.mu.Unlock()
	now := s.Now()
	for k, it := range s.store {
		if s.live(it, now) {
			keys = append(keys, k)
		}
	}
	sort.Strings(keys)
	for _, k := range keys {
		items = append(items, s.store[k])
	}
	return
}

// Keys returns every key in the store (live or not).
func (s *Server) Keys() []string {
	s.mu.Lock()
	defer s.mu.Unlock()
	var keys []string
	for k := range s.store {
		keys = append(keys, k)
	}
	sort.Strings(keys)
	return keys
}

func (s *Server) Lookup(key string) (Item, bool) {
	s.mu.Lock()
	defer s.mu.Unlock()
	it, ok := s.store[key]
	if !ok || !s.live(it, s.Now()) {
		return Item{}, false
	}
	return it, true
}

type header struct {
	magic, opcode uint8
	keyLen        uint16
	extLen        uint8
	total, opaque uint32
}

func respBytes(opcode uint8, status uint16, opaque uint32, extras, value []byte) []byte {
	buf := make([]byte, 24, 24+len(extras)+len(value))
	buf[0] = 0x81
	buf[1] = opcode
	buf[4] = uint8(len(extras))
	binary.BigEndian.PutUint16(buf[6:8], status)
	binary.BigEndian.PutUint32(buf[8:12], uint32(len(extras)+len(value)))
	binary.BigEndian.PutUint32(buf[12:16], opaque)
	buf = append(buf, extras...)
	buf = append(buf, value...)
	return buf
}

func errResp(opcode uint8, status uint16, opaque uint32) []byte {
	txt, ok := statusText[status]
	if !ok {
		txt = fmt.Sprintf("Status %d", status)
	}
	return respBytes(opcode, status, opaque, nil, []byte(txt))
}

// Serve handles one connection until it fails or is cut.
func (s *Server) Serve(c net.Conn) {
	s.mu.Lock()
	id := s.nextID
	s.nextID++
	s.conns[id] = c
	s.open++
	s.mu.Unlock()
	w := newAsyncWriter(c)
	defer func() {
		w.drain()
		c.Close()
		s.mu.Lock()
		delete(s.conns, id)
		s.open--
		s.mu.Unlock()
	}()
	r := bufio.NewReaderSize(c, 1<<16)
	hb := make([]byte, 24)
	for {
		if r.Buffered() == 0 {
			if err := w.Flush(); err != nil {
				return
			}
		}
		if _, err := io.ReadFull(r, hb); err != nil {
			return
		}
		h := header{magic: hb[0], opcode: hb[1], keyLen: binary.BigEndian.Uint16(hb[2:4]), extLen: hb[4],
			total: binary.BigEndian.Uint32(hb[8:12]), opaque: binary.BigEndian.Uint32(hb[12:16])}
		if h.magic != 0x80 || h.total < uint32(h.keyLen)+uint32(h.extLen) {
			return
		}
		body := make([]byte, h.total)
		if _, err := io.ReadFull(r, body); err != nil {
			return
		}
		extras := body[:h.extLen]
		key := body[h.extLen : uint32(h.extLen)+uint32(h.keyLen)]
		value := body[uint32(h.extLen)+uint32(h.keyLen):]
		e := Entry{Conn: id, Op: opNames[h.opcode], Key: append([]byte{}, key...), Value: append([]byte{}, value...), Opaque: h.opaque}
		if e.Op == "" {
			e.Op = fmt.Sprintf("op%02x", h.opcode)
		}
		switch h.opcode {
		case OpSet, OpAdd, OpReplace:
			if len(extras) >= 8 {
				e.Flags = binary.BigEndian.Uint32(extras[0:4])
				e.Exptime = binary.BigEndian.Uint32(extras[4:8])
			}
		case OpTouch, OpGat, OpGatQ:
			if len(extras) >= 4 {
				e.Exptime = binary.BigEndian.Uint32(extras[0:4])
			}
		}
		var gateDone func()
		if g := s.Gate; g != nil {
			gateDone = g(id, &e)
		}

		s.mu.Lock()
		var fk *Fault
		if s.fault != nil {
			if s.seen == s.fault.Index {
				fk = s.fault
			}
			s.seen++
		}
		if fk != nil && fk.Kind == FaultCutBefore {
			s.mu.Unlock()
			w.Flush()
			return
		}
		var out []byte
		if s.FailPrefix != "" && strings.HasPrefix(string(e.Key), s.FailPrefix) {
			// a key the backend is told to refuse: every request on it is answered with an error status
			out = errResp(h.opcode, s.FailStatus, h.opaque)
			e.Resp = fmt.Sprintf("st:%d", s.FailStatus)
		} else if fk != nil && fk.Kind == FaultStatus && h.opcode == OpNoop {
			// an error status on the no-op that terminates a quiet batch: a legal frame without a body
			out = respBytes(h.opcode, fk.Status, h.opaque, nil, nil)
			e.Resp = fmt.Sprintf("st:%d", fk.Status)
		} else if fk != nil && fk.Kind == FaultStatus {
			out = errResp(h.opcode, fk.Status, h.opaque)
			e.Resp = fmt.Sprintf("st:%d", fk.Status)
		} else {
			out = s.exec(h, &e)
		}
		e.At = time.Now().Unix() + s.Offset
		s.log = append(s.log, e)
		s.mu.Unlock()
		if gateDone != nil {
			gateDone()
		}

		if fk != nil && fk.Kind == FaultCutAfter {
			w.Flush()
			return
		}
		if fk != nil && fk.Kind == FaultCutMid {
			n := fk.MidBytes
			if n > len(out) {
				n = len(out)
			}
			w.Write(out[:n])
			w.Flush()
			return
		}
		if len(out) > 0 {
			if _, err := w.Write(out); err != nil {
				return
			}
		}
	}
}

// exec performs one request against the store (s.mu held) and returns the reply bytes.
func (s *Server) exec(h header, e *Entry) []byte {
	now := s.Now()
	key := string(e.Key)
	it, ok := s.store[key]
	if ok && !s.live(it, now) {
		ok = false
	}
	flagsExtra := func(f uint32) []byte {
		b := make([]byte, 4)
		binary.BigEndian.PutUint32(b, f)
		return b
	}
	hit := func(exp uint32, withExp bool) []byte {
		ex := flagsExtra(it.Flags)
		if withExp {
			b := make([]byte, 4)
			binary.BigEndian.PutUint32(b, exp)
			ex = append(ex, b...)
		}
		e.Resp = fmt.Sprintf("hit:%d:%d", it.Flags, exp)
		e.RespVal = it.Value
		return respBytes(h.opcode, StOK, h.opaque, ex, it.Value)
	}
	fail := func(st uint16) []byte {
		e.Resp = fmt.Sprintf("st:%d", st)
		return errResp(h.opcode, st, h.opaque)
	}
	okResp := func(extras []byte) []byte {
		e.Resp = "ok"
		return respBytes(h.opcode, StOK, h.opaque, extras, nil)
	}
	remaining := func() uint32 {
		if it.Deadline == 0 {
			return 0
		}
		return uint32(it.Deadline - now)
	}
	switch h.opcode {
	case OpNoop:
		return okResp(nil)
	case OpGet, OpGetQ, OpGetE, OpGetEQ:
		withExp := h.opcode == OpGetE || h.opcode == OpGetEQ
		quiet := h.opcode == OpGetQ || h.opcode == OpGetEQ
		if !ok {
			if quiet {
				e.Resp = "silent"
				return nil
			}
			return fail(StNotFound)
		}
		exp := uint32(0)
		if withExp {
			exp = remaining()
		}
		return hit(exp, withExp)
	case OpGat, OpGatQ:
		if !ok {
			if h.opcode == OpGatQ {
				e.Resp = "silent"
				return nil
			}
			return fail(StNotFound)
		}
		it.Deadline = deadlineOf(now, e.Exptime)
		s.store[key] = it
		return hit(0, false)
	case OpSet:
		s.store[key] = Item{Value: e.Value, Flags: e.Flags, Deadline: deadlineOf(now, e.Exptime)}
		return okResp(nil)
	case OpAdd:
		if ok {
			return fail(StExists)
		}
		s.store[key] = Item{Value: e.Value, Flags: e.Flags, Deadline: deadlineOf(now, e.Exptime)}
		return okResp(nil)
	case OpReplace:
		if !ok {
			return fail(StNotFound)
		}
		s.store[key] = Item{Value: e.Value, Flags: e.Flags, Deadline: deadlineOf(now, e.Exptime)}
		return okResp(nil)
	case OpAppend:
		if !ok {
			return fail(StNotStored)
		}
		it.Value = append(append([]byte{}, it.Value...), e.Value...)
		s.store[key] = it
		return okResp(nil)
	case OpPrepend:
		if !ok {
			return fail(StNotStored)
		}
		it.Value = append(append([]byte{}, e.Value...), it.Value...)
		s.store[key] = it
		return okResp(nil)
	case OpDelete:
		if !ok {
			return fail(StNotFound)
		}
		delete(s.store, key)
		return okResp(nil)
	case OpTouch:
		if !ok {
			return fail(StNotFound)
		}
		it.Deadline = deadlineOf(now, e.Exptime)
		s.store[key] = it
		return okResp(flagsExtra(it.Flags))
	}
	return fail(StUnknown)
}

// asyncWriter queues replies without bound and sends them from its own goroutine, so that the
// server keeps reading requests while the client is not reading replies yet (a backend with ample
// socket buffers: the chunked handler sends all the requests of a multi-chunk read before it reads
// the first reply).
type asyncWriter struct {
	c    net.Conn
	mu   sync.Mutex
	cond *sync.Cond
	buf  []byte
	busy bool
	done bool
	err  error
}

func newAsyncWriter(c net.Conn) *asyncWriter {
	w := &asyncWriter{c: c}
	w.cond = sync.NewCond(&w.mu)
	go w.run()
	return w
}

func (w *asyncWriter) run() {
	w.mu.Lock()
	for {
		for len(w.buf) == 0 && !w.done {
			w.cond.Wait()
		}
		if len(w.buf) == 0 && w.done {
			w.mu.Unlock()
			return
		}
		b := w.buf
		w.buf = nil
		w.busy = true
		w.mu.Unlock()
		_, err := w.c.Write(b)
		w.mu.Lock()
		w.busy = false
		if err != nil && w.err == nil {
			w.err = err
		}
		w.cond.Broadcast()
		if w.err != nil {
			w.buf = nil
		}
	}
}

func (w *asyncWriter) Write(b []byte) (int, error) {
	w.mu.Lock()
	defer w.mu.Unlock()
	if w.err != nil {
		return 0, w.err
	}
	w.buf = append(w.buf, b...)
	w.cond.Broadcast()
	return len(b), nil
}

// Flush reports an earlier send error; the data is on its way already.
func (w *asyncWriter) Flush() error {
	w.mu.Lock()
	defer w.mu.Unlock()
	return w.err
}

// drain waits until everything queued has been handed to the socket (or failed), then stops the
// sender. A peer that never reads is cut off after a few seconds.
func (w *asyncWriter) drain() {
	w.c.SetWriteDeadline(time.Now().Add(5 * time.Second))
	w.mu.Lock()
	for (len(w.buf) > 0 || w.busy) && w.err == nil {
		w.cond.Wait()
	}
	w.done = true
	w.cond.Broadcast()
	w.mu.Unlock()
}

#!/bin/sh
# Build the framework from files on disk only (offline).
set -e
cd "$(dirname "$0")"
export GOFLAGS=-mod=mod GOPROXY=off GOSUMDB=off GOTOOLCHAIN=local
mkdir -p run/bin evidence
cp /repo/go.sum harness/go.sum 2>/dev/null || true
(cd harness && go build -o ../run/bin/gen ./cmd/gen)
./run/bin/gen -repo /repo -out lean/Rend/Gen
(cd lean && lake build)
(cd harness && go build -tags verif -o ../run/bin/rendcheck ./cmd/rendcheck)
echo setup-ok
